#!/bin/sh
# usage: tools_mut.sh <prop> <file-relative-to-/repo> <old> <new>   (applies a one-line textual mutant to /repo, runs the quick check, reverts)
prop=$1; f=/repo/$2
python3 - "$f" "$3" "$4" <<'PY'
import sys
p,old,new=sys.argv[1:4]
s=open(p).read()
if old not in s: print("PATTERN NOT FOUND"); sys.exit(3)
open(p,'w').write(s.replace(old,new,1))
PY
[ $? = 0 ] || exit 3
git -C /repo diff --stat | tail -1
for p in $(echo $prop | tr , ' '); do /verif/check $p --tier quick 2>&1 | grep -v "^#  \|^# built" | head -8; done
git -C /repo checkout -- .
