#!/bin/sh
# usage: tools_regress.sh [ids...]   — runs every seeded change (or the given ids) against the check
# of its property in a scratch copy of the simulator and of the repository (so /repo is untouched):
# each must be reported (exit 1 with a VIOLATION line); prints one line per change.
W=${REGRESS_DIR:-/tmp/cglue-regress}
rm -rf $W; mkdir -p $W
git -C /repo worktree add -q --detach $W/repo HEAD || exit 3
mkdir -p $W/sim
(cd /verif/sim && tar cf - --exclude=target . ) | (cd $W/sim && tar xf -)
sed -i "s#\"/repo/#\"$W/repo/#g" $W/sim/*/Cargo.toml
export VERIF_SIM=$W/sim VERIF_REPO=$W/repo VERIF_EVIDENCE_DIR=$W/evidence VERIF_REPLAY_DIR=$W/replays
ids="$@"; [ -z "$ids" ] && ids=$(ls /verif/seeded | grep -v "^_")
ok=0; bad=0
for id in $ids; do
  prop=$(python3 -c "import json;d=json.load(open('/verif/seeded/$id/meta.json'));print(d.get('regress_with', d['property']))")
  if grep -q regress_expect /verif/seeded/$id/meta.json; then echo "$id: skipped (recorded as not caught by decision)"; continue; fi
  git -C $W/repo checkout -q -- . ; git -C $W/repo apply /verif/seeded/$id/patch.diff || { echo "$id: PATCH DOES NOT APPLY"; bad=$((bad+1)); continue; }
  timeout 1500 /verif/check $prop --tier quick > $W/out-$id.txt 2>&1; rc=$?
  if [ $rc = 1 ] && grep -q "^VIOLATION property=$prop" $W/out-$id.txt; then ok=$((ok+1)); echo "$id: caught by $prop ($(grep -m1 '^#   class=' $W/out-$id.txt | cut -c5-70))"; else bad=$((bad+1)); echo "$id: NOT CAUGHT by $prop (exit $rc)"; fi
done
git -C $W/repo checkout -q -- .
# the unchanged tree must be quiet in the same scratch setup
for prop in C01 C07 C11; do timeout 1500 /verif/check $prop --tier quick > $W/out-clean-$prop.txt 2>&1; echo "clean $prop exit=$?"; done
git -C /repo worktree remove --force $W/repo; rm -rf $W
echo "caught=$ok missed=$bad"
