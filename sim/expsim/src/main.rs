//! expsim — runs the cglue macro expander as an ordinary library (C04a) over the corpus
//! definitions and prints the layout-relevant projection of what it generates: every #[repr(C)]
//! struct (name, field names, field types, in order) and every vtable Default initialiser
//! (slot -> wrapper). The process hash seed is owned by the caller through the getrandom shim;
//! every expansion runs on a fresh thread because std caches hash keys per thread.
//!
//!   expsim <corpus.rs> [--permute N]     N = seed of a permutation of the trait listing order in
//!                                        every cglue_trait_group! / cglue_impl_group! invocation

use cglue_gen::trait_groups::{TraitGroup, TraitGroupImpl};
use proc_macro2::{Delimiter, Group, TokenStream, TokenTree};
use quote::ToTokens;
use syn::visit::Visit;

struct Proj {
    out: Vec<String>,
}

fn has_repr_c(attrs: &[syn::Attribute]) -> bool {
    attrs.iter().any(|a| a.path.is_ident("repr") && a.tokens.to_string().replace(' ', "").contains("C"))
}

impl<'ast> Visit<'ast> for Proj {
    fn visit_item_struct(&mut self, s: &'ast syn::ItemStruct) {
        if has_repr_c(&s.attrs) {
            let fields: Vec<String> = s
                .fields
                .iter()
                .map(|f| format!("{}: {}", f.ident.as_ref().map(|i| i.to_string()).unwrap_or_default(), f.ty.to_token_stream().to_string().replace(' ', "")))
                .collect();
            self.out.push(format!("struct {} {{ {} }}", s.ident, fields.join("; ")));
        }
        syn::visit::visit_item_struct(self, s);
    }
    fn visit_expr_struct(&mut self, e: &'ast syn::ExprStruct) {
        let name = e.path.segments.last().map(|s| s.ident.to_string()).unwrap_or_default();
        if name.ends_with("Vtbl") {
            let fields: Vec<String> = e.fields.iter().map(|f| format!("{} = {}", f.member.to_token_stream(), f.expr.to_token_stream().to_string().replace(' ', ""))).collect();
            self.out.push(format!("init {} {{ {} }}", name, fields.join("; ")));
        }
        syn::visit::visit_expr_struct(self, e);
    }
}

fn project(ts: TokenStream, what: &str) -> Vec<String> {
    let file: syn::File = match syn::parse2(ts) {
        Ok(f) => f,
        Err(e) => return vec![format!("UNPARSABLE expansion of {}: {}", what, e)],
    };
    let mut p = Proj { out: Vec::new() };
    p.visit_file(&file);
    p.out
}

struct Lcg(u64);
impl Lcg {
    fn next(&mut self) -> u64 {
        self.0 = self.0.wrapping_mul(6364136223846793005).wrapping_add(1442695040888963407);
        self.0 >> 33
    }
}

/// Splits a token list at top-level commas (angle brackets tracked so `Gen<usize> = X` stays whole).
fn split_commas(ts: TokenStream) -> Vec<TokenStream> {
    let mut out = vec![TokenStream::new()];
    let mut depth = 0i32;
    for tt in ts {
        match &tt {
            TokenTree::Punct(p) if p.as_char() == '<' => depth += 1,
            TokenTree::Punct(p) if p.as_char() == '>' => depth -= 1,
            TokenTree::Punct(p) if p.as_char() == ',' && depth == 0 => {
                out.push(TokenStream::new());
                continue;
            }
            _ => {}
        }
        out.last_mut().unwrap().extend(std::iter::once(tt));
    }
    out.into_iter().filter(|t| !t.is_empty()).collect()
}

/// Permutes the order in which traits are listed inside every braced list of a group invocation.
fn permute_braced(ts: TokenStream, rng: &mut Lcg) -> TokenStream {
    let mut out = TokenStream::new();
    for tt in ts {
        match tt {
            TokenTree::Group(g) if g.delimiter() == Delimiter::Brace => {
                let mut items = split_commas(g.stream());
                for i in (1..items.len()).rev() {
                    let j = (rng.next() % (i as u64 + 1)) as usize;
                    items.swap(i, j);
                }
                let mut inner = TokenStream::new();
                for (i, it) in items.into_iter().enumerate() {
                    if i > 0 {
                        inner.extend(quote::quote!(,));
                    }
                    inner.extend(it);
                }
                out.extend(std::iter::once(TokenTree::Group(Group::new(Delimiter::Brace, inner))));
            }
            other => out.extend(std::iter::once(other)),
        }
    }
    out
}

fn on_fresh_thread<T: Send + 'static>(f: impl FnOnce() -> T + Send + 'static) -> T {
    std::thread::spawn(f).join().expect("expansion panicked")
}

fn main() {
    let args: Vec<String> = std::env::args().collect();
    if args.len() < 2 {
        eprintln!("usage: expsim <source.rs> [--permute N]");
        std::process::exit(2);
    }
    let permute: Option<u64> = args.iter().position(|a| a == "--permute").and_then(|i| args.get(i + 1)).and_then(|s| s.parse().ok());
    let src = std::fs::read_to_string(&args[1]).expect("cannot read source");
    let file = syn::parse_file(&src).expect("cannot parse source");
    let mut rng = Lcg(permute.unwrap_or(0) ^ 0xABCDEF);
    let mut lines: Vec<String> = Vec::new();
    let mut expansions = 0;
    for item in file.items {
        match item {
            syn::Item::Trait(mut tr) => {
                if !tr.attrs.iter().any(|a| a.path.is_ident("cglue_trait")) {
                    continue;
                }
                tr.attrs.retain(|a| !a.path.is_ident("cglue_trait"));
                let name = tr.ident.to_string();
                // exported methods only: `#[skip_func]` methods have no vtable slot by definition, and
                // neither have methods with type parameters of their own and a default body (the
                // opaque object runs the default body)
                let decl: Vec<String> = tr
                    .items
                    .iter()
                    .filter_map(|i| {
                        if let syn::TraitItem::Method(m) = i {
                            let generic_default = m.default.is_some() && m.sig.generics.type_params().next().is_some();
                            if m.attrs.iter().any(|a| a.path.is_ident("skip_func")) || generic_default { None } else { Some(m.sig.ident.to_string()) }
                        } else {
                            None
                        }
                    })
                    .collect();
                lines.push(format!("decl {}: {}", name, decl.join(" ")));
                // methods marked to use integer results: a trait-level or method-level `int_result`
                // (optionally naming a result alias) unless `no_int_result`, when the return type
                // is spelled with the marked name
                fn marker(attrs: &[syn::Attribute]) -> Option<String> {
                    attrs.iter().find(|a| a.path.is_ident("int_result")).map(|a| {
                        a.parse_args::<syn::Ident>().map(|i| i.to_string()).unwrap_or_else(|_| "Result".to_string())
                    })
                }
                let trait_level = marker(&tr.attrs);
                let coded: Vec<String> = tr
                    .items
                    .iter()
                    .filter_map(|i| {
                        let syn::TraitItem::Method(m) = i else { return None };
                        if m.attrs.iter().any(|a| a.path.is_ident("no_int_result") || a.path.is_ident("skip_func")) {
                            return None;
                        }
                        let name = marker(&m.attrs).or_else(|| trait_level.clone())?;
                        let syn::ReturnType::Type(_, ty) = &m.sig.output else { return None };
                        let syn::Type::Path(p) = &**ty else { return None };
                        (p.path.segments.last()?.ident == name).then(|| m.sig.ident.to_string())
                    })
                    .collect();
                lines.push(format!("intres {}: {}", name, coded.join(" ")));
                let text = tr.to_token_stream().to_string();
                let v = on_fresh_thread(move || {
                    let tr: syn::ItemTrait = syn::parse_str(&text).expect("trait re-parse");
                    project(cglue_gen::traits::gen_trait(tr, None), "trait")
                });
                expansions += 1;
                lines.push(format!("## trait {}", name));
                lines.extend(v);
            }
            syn::Item::Macro(m) => {
                let mname = m.mac.path.segments.last().map(|s| s.ident.to_string()).unwrap_or_default();
                let mut tokens = m.mac.tokens.clone();
                if permute.is_some() {
                    tokens = permute_braced(tokens, &mut rng);
                }
                let text = tokens.to_string();
                if mname == "cglue_trait_group" {
                    let label = text.split(',').next().unwrap_or("").trim().to_string();
                    // the names (aliases) as written, mandatory list then optional list
                    let parts = split_commas(m.mac.tokens.clone());
                    let names = |ts: &TokenStream| -> Vec<String> {
                        let inner = match ts.clone().into_iter().next() {
                            Some(TokenTree::Group(g)) if g.delimiter() == Delimiter::Brace => g.stream(),
                            _ => ts.clone(),
                        };
                        split_commas(inner)
                            .into_iter()
                            .map(|t| {
                                let s = t.to_string();
                                match s.rsplit_once('=') {
                                    Some((_, alias)) => alias.trim().to_string(),
                                    None => s.split('<').next().unwrap_or("").trim().rsplit("::").next().unwrap_or("").trim().to_string(),
                                }
                            })
                            .collect()
                    };
                    if parts.len() >= 3 {
                        lines.push(format!("gdecl {} mand: {} opt: {}", label, names(&parts[1]).join(" "), names(&parts[2]).join(" ")));
                    }
                    let v = on_fresh_thread(move || {
                        let g: TraitGroup = syn::parse_str(&text).expect("group parse");
                        project(g.create_group(), "group")
                    });
                    expansions += 1;
                    lines.push(format!("## group {}", label));
                    lines.extend(v);
                } else if mname == "cglue_impl_group" {
                    let label: String = text.split(',').take(2).collect::<Vec<_>>().join(",");
                    let v = on_fresh_thread(move || {
                        let g: TraitGroupImpl = syn::parse_str(&text).expect("group impl parse");
                        // the enable chain decides which optional vtable words are filled
                        let ts = g.implement_group();
                        let s = ts.to_string();
                        let mut calls: Vec<String> = Vec::new();
                        let mut rest = s.as_str();
                        while let Some(i) = rest.find("enable_") {
                            let tail = &rest[i..];
                            let end = tail.find(|c: char| !(c.is_alphanumeric() || c == '_')).unwrap_or(tail.len());
                            calls.push(tail[..end].to_string());
                            rest = &tail[end..];
                        }
                        calls.sort();
                        calls.dedup();
                        vec![format!("enables {}", calls.join(" "))]
                    });
                    expansions += 1;
                    lines.push(format!("## impl {}", label.replace(' ', "")));
                    lines.extend(v);
                }
            }
            _ => {}
        }
    }
    for l in &lines {
        println!("{}", l);
    }
    eprintln!("expansions={} projection_lines={}", expansions, lines.len());
}
