//! The only source of randomness in the simulator: splitmix64 for seeding, xoshiro256** for streams.
//! Generation draws from it; execution never does.

pub fn splitmix64(x: &mut u64) -> u64 {
    *x = x.wrapping_add(0x9E37_79B9_7F4A_7C15);
    let mut z = *x;
    z = (z ^ (z >> 30)).wrapping_mul(0xBF58_476D_1CE4_E5B9);
    z = (z ^ (z >> 27)).wrapping_mul(0x94D0_49BB_1331_11EB);
    z ^ (z >> 31)
}

/// FNV-1a, used for names and for log / state / plan digests.
pub fn fnv(bytes: &[u8]) -> u64 {
    let mut h: u64 = 0xcbf2_9ce4_8422_2325;
    for b in bytes {
        h ^= *b as u64;
        h = h.wrapping_mul(0x100_0000_01b3);
    }
    h
}

#[derive(Clone, Copy, Debug, Default)]
pub struct Fnv(pub u64);
impl Fnv {
    pub fn new() -> Self {
        Fnv(0xcbf2_9ce4_8422_2325)
    }
    pub fn bytes(&mut self, b: &[u8]) {
        for x in b {
            self.0 ^= *x as u64;
            self.0 = self.0.wrapping_mul(0x100_0000_01b3);
        }
    }
    pub fn u64(&mut self, v: u64) {
        self.bytes(&v.to_le_bytes());
    }
    pub fn i64(&mut self, v: i64) {
        self.bytes(&v.to_le_bytes());
    }
    pub fn str(&mut self, s: &str) {
        self.bytes(s.as_bytes());
        self.bytes(&[0xff]);
    }
}

/// Per-run seed: a pure function of (VERIF_SEED, engine name, run index).
pub fn run_seed(verif_seed: u64, engine: &str, run: u64) -> u64 {
    let mut s = verif_seed ^ 0x5151_5151_5151_5151;
    let a = splitmix64(&mut s);
    let mut s2 = fnv(engine.as_bytes());
    let b = splitmix64(&mut s2);
    let mut s3 = run.wrapping_mul(0xD6E8_FEB8_6659_FD93) ^ 0x1234_5678;
    let c = splitmix64(&mut s3);
    let mut m = a ^ b.rotate_left(17) ^ c.rotate_left(41);
    splitmix64(&mut m)
}

#[derive(Clone, Debug)]
pub struct Rng {
    s: [u64; 4],
}

impl Rng {
    pub fn new(seed: u64) -> Self {
        let mut x = seed;
        let s = [
            splitmix64(&mut x),
            splitmix64(&mut x),
            splitmix64(&mut x),
            splitmix64(&mut x),
        ];
        Rng { s }
    }
    pub fn next_u64(&mut self) -> u64 {
        let r = self.s[1].wrapping_mul(5).rotate_left(7).wrapping_mul(9);
        let t = self.s[1] << 17;
        self.s[2] ^= self.s[0];
        self.s[3] ^= self.s[1];
        self.s[1] ^= self.s[2];
        self.s[0] ^= self.s[3];
        self.s[2] ^= t;
        self.s[3] = self.s[3].rotate_left(45);
        r
    }
    /// uniform in 0..n (n > 0)
    pub fn below(&mut self, n: u64) -> u64 {
        debug_assert!(n > 0);
        // multiply-shift; bias is irrelevant here
        ((self.next_u64() as u128 * n as u128) >> 64) as u64
    }
    pub fn range(&mut self, lo: i64, hi_incl: i64) -> i64 {
        lo + self.below((hi_incl - lo + 1) as u64) as i64
    }
    pub fn chance(&mut self, num: u64, den: u64) -> bool {
        self.below(den) < num
    }
    pub fn pick<'a, T>(&mut self, xs: &'a [T]) -> &'a T {
        &xs[self.below(xs.len() as u64) as usize]
    }
    /// weighted pick: returns the index
    pub fn weighted(&mut self, w: &[u32]) -> usize {
        let total: u64 = w.iter().map(|x| *x as u64).sum();
        if total == 0 {
            return 0;
        }
        let mut r = self.below(total);
        for (i, x) in w.iter().enumerate() {
            if r < *x as u64 {
                return i;
            }
            r -= *x as u64;
        }
        w.len() - 1
    }
}
