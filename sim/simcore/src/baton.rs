//! Baton scheduler: each logical thread is a real OS thread; exactly one of them (or the
//! executor) is ever runnable. The plan's step order *is* the schedule, so an execution is a pure
//! function of the plan, yet values really are created on one thread and used/dropped on others.

use std::panic::{catch_unwind, resume_unwind, AssertUnwindSafe};
use std::sync::mpsc::{channel, Receiver, Sender};
use std::thread::JoinHandle;

type Job = Box<dyn FnOnce() + Send + 'static>;

struct Worker {
    tx: Sender<Job>,
    done: Receiver<std::thread::Result<()>>,
    handle: Option<JoinHandle<()>>,
}

pub struct Baton {
    workers: Vec<Option<Worker>>,
    pub handoffs: u64,
}

struct SendPtr<T>(*mut T);
unsafe impl<T> Send for SendPtr<T> {}

impl Baton {
    pub fn new() -> Self {
        Baton { workers: Vec::new(), handoffs: 0 }
    }

    fn ensure(&mut self, t: usize) {
        while self.workers.len() <= t {
            self.workers.push(None);
        }
        if self.workers[t].is_none() {
            let (tx, rx) = channel::<Job>();
            let (dtx, drx) = channel::<std::thread::Result<()>>();
            let handle = std::thread::Builder::new()
                .name(format!("sim-t{}", t))
                .spawn(move || {
                    for job in rx {
                        let r = catch_unwind(AssertUnwindSafe(job));
                        if dtx.send(r).is_err() {
                            break;
                        }
                    }
                })
                .expect("spawn logical thread");
            self.workers[t] = Some(Worker { tx, done: drx, handle: Some(handle) });
        }
    }

    /// Run `f` on logical thread `t` and wait for it. Thread 0 is the executor's own thread.
    /// Panics inside `f` are propagated to the caller.
    pub fn on<R>(&mut self, t: u8, f: impl FnOnce() -> R) -> R {
        if t == 0 {
            return f();
        }
        let t = t as usize;
        self.ensure(t);
        self.handoffs += 1;
        let mut out: Option<R> = None;
        {
            let outp = SendPtr(&mut out as *mut Option<R>);
            let boxed: Box<dyn FnOnce() + '_> = Box::new({
                let f = AssertSend(f);
                move || {
                    let outp = outp;
                    let f = f;
                    let r = (f.0)();
                    unsafe { *outp.0 = Some(r) };
                }
            });
            // SAFETY: we block until the job has finished, so borrowed data outlives it.
            let job: Job = unsafe { std::mem::transmute::<Box<dyn FnOnce() + '_>, Job>(boxed_send(boxed)) };
            let w = self.workers[t].as_ref().unwrap();
            w.tx.send(job).expect("logical thread gone");
            match w.done.recv().expect("logical thread died") {
                Ok(()) => {}
                Err(p) => resume_unwind(p),
            }
        }
        out.expect("job produced no result")
    }
}

struct AssertSend<T>(T);
unsafe impl<T> Send for AssertSend<T> {}

fn boxed_send<'a>(b: Box<dyn FnOnce() + 'a>) -> Box<dyn FnOnce() + Send + 'a> {
    // the baton guarantees exclusive execution; Send-ness of the captured state is asserted
    unsafe { std::mem::transmute(b) }
}

impl Drop for Baton {
    fn drop(&mut self) {
        for w in self.workers.iter_mut() {
            if let Some(mut w) = w.take() {
                drop(w.tx);
                if let Some(h) = w.handle.take() {
                    let _ = h.join();
                }
            }
        }
    }
}

impl Default for Baton {
    fn default() -> Self {
        Self::new()
    }
}
