//! Worker process protocol. The Python driver never runs plans in its own process: it starts
//! workers over ranges of run indices and parses their line-oriented output.
//!
//!   <bin> <engine> run  --seed S --from A --to B [--thorough] [--out-hashes PREFIX] [--free]
//!   <bin> <engine> gen  --seed S --run I [--thorough]
//!   <bin> <engine> exec (--plan-file F | --plan TEXT) [--log] [--free]
//!   <bin> list
//!
//! run:  RUN i / OK i planhash loghash steps eff mut / FAIL i planhash class step site ## msg
//!       FINDING n class ## site / STAT key value / END
//! exec: OK planhash loghash … / FAIL … (same shapes, run index 0), optional LOG lines

use crate::plan::Plan;
use crate::rng::{run_seed, Rng};
use crate::{alloc, Engine, RunCtx, Violation};
use std::collections::{BTreeMap, BTreeSet};
use std::io::Write;
use std::panic::{catch_unwind, AssertUnwindSafe};

fn arg_val<'a>(args: &'a [String], name: &str) -> Option<&'a str> {
    args.iter().position(|a| a == name).and_then(|i| args.get(i + 1)).map(|s| s.as_str())
}
fn has(args: &[String], name: &str) -> bool {
    args.iter().any(|a| a == name)
}

pub fn exec_guarded(e: &dyn Engine, plan: &Plan, ctx: &mut RunCtx) -> Result<(), Violation> {
    ctx.begin_run();
    alloc::run_begin(plan.hash());
    let r = catch_unwind(AssertUnwindSafe(|| e.exec(plan, ctx)));
    match r {
        Ok(r) => r,
        Err(p) => {
            let msg = if let Some(s) = p.downcast_ref::<&str>() {
                s.to_string()
            } else if let Some(s) = p.downcast_ref::<String>() {
                s.clone()
            } else {
                "non-string panic".to_string()
            };
            // keep only the stable part of a panic message as the site
            let site: String = msg.chars().take(60).collect();
            Err(Violation { class: format!("{}.panic", e.name()), step: ctx.cur_step, site, msg })
        }
    }
}

fn one_line(s: &str) -> String {
    s.replace('\n', " ").replace('\r', " ")
}

fn write_hashes(path: &str, set: &BTreeSet<u64>) {
    if let Ok(mut f) = std::fs::File::create(path) {
        let mut buf = Vec::with_capacity(set.len() * 8);
        for h in set {
            buf.extend_from_slice(&h.to_le_bytes());
        }
        let _ = f.write_all(&buf);
    }
}

pub fn worker_main(engines: &[&dyn Engine]) -> i32 {
    let args: Vec<String> = std::env::args().collect();
    if args.len() >= 2 && args[1] == "list" {
        for e in engines {
            println!("{}", e.name());
        }
        return 0;
    }
    if args.len() < 3 {
        eprintln!("usage: <bin> <engine> run|gen|exec …");
        return 2;
    }
    let ename = args[1].as_str();
    let e: &dyn Engine = match engines.iter().find(|e| e.name() == ename) {
        Some(e) => *e,
        None => {
            eprintln!("unknown engine {}", ename);
            return 2;
        }
    };
    let mode = args[2].as_str();
    let rest = &args[3..];
    let thorough = has(rest, "--thorough");
    let free = has(rest, "--free");
    // keep panics quiet: they are caught and reported as results
    std::panic::set_hook(Box::new(|_| {}));
    match mode {
        "gen" => {
            let seed: u64 = arg_val(rest, "--seed").and_then(|s| s.parse().ok()).unwrap_or(1);
            let run: u64 = arg_val(rest, "--run").and_then(|s| s.parse().ok()).unwrap_or(0);
            let mut rng = Rng::new(run_seed(seed, e.name(), run));
            let plan = e.gen(&mut rng, thorough);
            print!("{}", plan.to_text());
            0
        }
        "exec" => {
            let txt = if let Some(f) = arg_val(rest, "--plan-file") {
                match std::fs::read_to_string(f) {
                    Ok(t) => t,
                    Err(er) => {
                        eprintln!("cannot read plan file: {}", er);
                        return 2;
                    }
                }
            } else if let Some(t) = arg_val(rest, "--plan") {
                t.to_string()
            } else {
                eprintln!("exec needs --plan-file or --plan");
                return 2;
            };
            let plan = match Plan::from_text(&txt) {
                Ok(p) => p,
                Err(er) => {
                    eprintln!("malformed plan: {}", er);
                    return 2;
                }
            };
            if plan.engine != e.name() {
                eprintln!("plan is for engine {} not {}", plan.engine, e.name());
                return 2;
            }
            let mut ctx = RunCtx::new(has(rest, "--log"));
            ctx.free = free;
            println!("RUN 0");
            let r = exec_guarded(e, &plan, &mut ctx);
            if let Some(lines) = ctx.log_lines.as_ref() {
                for l in lines {
                    println!("LOG {}", one_line(l));
                }
            }
            for (c, s) in &ctx.findings {
                println!("FINDING 1 0 {} ## {}", c, one_line(s));
            }
            match r {
                Ok(()) => {
                    println!(
                        "OK 0 {:016x} {:016x} {} {} {}",
                        plan.hash(),
                        ctx.log_hash(),
                        plan.steps.len(),
                        ctx.effective_steps,
                        ctx.mutating_steps
                    );
                    println!("END");
                    0
                }
                Err(v) => {
                    println!(
                        "FAIL 0 {:016x} {} {} {} ## {}",
                        plan.hash(),
                        v.class,
                        v.step,
                        one_line(&v.site),
                        one_line(&v.msg)
                    );
                    println!("END");
                    let _ = std::io::stdout().flush();
                    0
                }
            }
        }
        "run" => {
            let seed: u64 = arg_val(rest, "--seed").and_then(|s| s.parse().ok()).unwrap_or(1);
            let from: u64 = arg_val(rest, "--from").and_then(|s| s.parse().ok()).unwrap_or(0);
            let to: u64 = arg_val(rest, "--to").and_then(|s| s.parse().ok()).unwrap_or(1);
            let out_hashes = arg_val(rest, "--out-hashes");
            let max_fail: u64 = arg_val(rest, "--max-fail").and_then(|s| s.parse().ok()).unwrap_or(400);
            let mut ctx = RunCtx::new(false);
            ctx.free = free;
            let mut plans: BTreeSet<u64> = BTreeSet::new();
            let mut findings: BTreeMap<(String, String), (u64, u64)> = BTreeMap::new();
            let mut total_steps: u64 = 0;
            let mut fails = 0u64;
            let out = std::io::stdout();
            for i in from..to {
                {
                    let mut o = out.lock();
                    let _ = writeln!(o, "RUN {}", i);
                    let _ = o.flush();
                }
                let mut rng = Rng::new(run_seed(seed, e.name(), i));
                let plan = e.gen(&mut rng, thorough);
                let ph = plan.hash();
                let r = exec_guarded(e, &plan, &mut ctx);
                total_steps += plan.steps.len() as u64;
                for f in std::mem::take(&mut ctx.findings) {
                    findings.entry(f).or_insert((0, i)).0 += 1;
                }
                match r {
                    Ok(()) => {
                        if ctx.effective_steps >= 2 && ctx.mutating_steps >= 1 {
                            plans.insert(ph);
                        }
                        println!(
                            "OK {} {:016x} {:016x} {} {} {}",
                            i,
                            ph,
                            ctx.log_hash(),
                            plan.steps.len(),
                            ctx.effective_steps,
                            ctx.mutating_steps
                        );
                    }
                    Err(v) => {
                        println!(
                            "FAIL {} {:016x} {} {} {} ## {}",
                            i,
                            ph,
                            v.class,
                            v.step,
                            one_line(&v.site),
                            one_line(&v.msg)
                        );
                        fails += 1;
                        // threads of a failed run may be wedged or hold corrupt state
                        ctx.baton = crate::Baton::new();
                        if fails >= max_fail {
                            println!("STOPPED {} too many failures in this worker", i);
                            break;
                        }
                    }
                }
            }
            for ((c, s), (n, first)) in &findings {
                println!("FINDING {} {} {} ## {}", n, first, c, one_line(s));
            }
            for (k, v) in &ctx.counters {
                println!("STAT {} {}", k, v);
            }
            println!("STAT steps {}", total_steps);
            println!("STAT baton_handoffs {}", ctx.baton.handoffs);
            let (a, f, r) = alloc::counters();
            println!("STAT simalloc_allocs {}", a);
            println!("STAT simalloc_frees {}", f);
            println!("STAT simalloc_reallocs {}", r);
            println!("STAT distinct_states_worker {}", ctx.states.len());
            println!("STAT distinct_pairs_worker {}", ctx.pairs.len());
            if let Some(prefix) = out_hashes {
                write_hashes(&format!("{}.states", prefix), &ctx.states);
                write_hashes(&format!("{}.pairs", prefix), &ctx.pairs);
                write_hashes(&format!("{}.plans", prefix), &plans);
                write_hashes(&format!("{}.cells", prefix), &ctx.cells);
            }
            println!("END");
            let _ = std::io::stdout().flush();
            0
        }
        _ => {
            eprintln!("unknown mode {}", mode);
            2
        }
    }
}
