//! simalloc: the simulated heap. A `#[global_allocator]` wrapper over `System` that tracks only
//! allocations made while the executing thread is "inside the system under test" (`track`).
//!
//! - every tracked block has a sequence id and a record (size, align, step);
//! - red zones and fresh memory are filled with a seeded non-zero pattern;
//! - dealloc / realloc must present the layout of the allocation, the block must be live and
//!   its red zones intact;
//! - freed blocks are poisoned and quarantined until the end of the run;
//! - realloc always moves;
//! - at quiescence the set of live tracked blocks of the run must be empty.
//!
//! Nothing here logs addresses. Under Miri this module is not used (Miri's own checks apply).

use std::alloc::{GlobalAlloc, Layout, System};
use std::cell::Cell;
use std::collections::BTreeMap;
use std::sync::atomic::{AtomicU64, AtomicUsize, Ordering};
use std::sync::Mutex;

pub struct SimAlloc;

thread_local! {
    static TRACK: Cell<bool> = const { Cell::new(false) };
    static INTERNAL: Cell<bool> = const { Cell::new(false) };
}

#[derive(Clone, Copy, PartialEq, Eq, Debug)]
enum St {
    Live,
    Freed,
}

#[derive(Clone, Copy, Debug)]
struct Rec {
    seq: u64,
    size: usize,
    align: usize,
    rz: usize,
    st: St,
    step: i64,
    tag: u32,
}

struct Table {
    foreign: BTreeMap<usize, usize>, // arena blocks of the simulated other module: start -> size
    blocks: BTreeMap<usize, Rec>, // key: user pointer
    quarantine: Vec<usize>,
    violations: Vec<String>,
    run_start_seq: u64,
}

static TABLE: Mutex<Option<Table>> = Mutex::new(None);
static NTRACKED: AtomicUsize = AtomicUsize::new(0); // live + quarantined entries
static SEQ: AtomicU64 = AtomicU64::new(1);
static FILL: AtomicU64 = AtomicU64::new(0xC7);
static CUR_STEP: AtomicU64 = AtomicU64::new(0);
static CUR_TAG: AtomicU64 = AtomicU64::new(0);
static N_ALLOC: AtomicU64 = AtomicU64::new(0);
static N_FREE: AtomicU64 = AtomicU64::new(0);
static N_REALLOC: AtomicU64 = AtomicU64::new(0);

const QUARANTINE_MAX: usize = 4096;

fn tracking() -> bool {
    TRACK.try_with(|t| t.get()).unwrap_or(false) && !INTERNAL.try_with(|t| t.get()).unwrap_or(true)
}

struct InternalGuard(bool);
impl InternalGuard {
    fn enter() -> Self {
        let prev = INTERNAL.try_with(|t| t.replace(true)).unwrap_or(true);
        InternalGuard(prev)
    }
}
impl Drop for InternalGuard {
    fn drop(&mut self) {
        let _ = INTERNAL.try_with(|t| t.set(self.0));
    }
}

fn with_table<R>(f: impl FnOnce(&mut Table) -> R) -> R {
    let _g = InternalGuard::enter();
    let mut guard = match TABLE.lock() {
        Ok(g) => g,
        Err(p) => p.into_inner(),
    };
    if guard.is_none() {
        *guard = Some(Table {
            foreign: BTreeMap::new(),
            blocks: BTreeMap::new(),
            quarantine: Vec::new(),
            violations: Vec::new(),
            run_start_seq: 0,
        });
    }
    f(guard.as_mut().unwrap())
}

fn fill_byte() -> u8 {
    FILL.load(Ordering::Relaxed) as u8
}
fn rz_byte() -> u8 {
    fill_byte() ^ 0x5A | 1
}
const POISON: u8 = 0xDD;

fn rz_for(align: usize) -> usize {
    std::cmp::max(align, 32)
}

unsafe fn real_layout(size: usize, align: usize) -> (Layout, usize) {
    let rz = rz_for(align);
    (Layout::from_size_align_unchecked(size + 2 * rz, align), rz)
}

unsafe fn tracked_alloc(layout: Layout, zeroed: bool) -> *mut u8 {
    let (real, rz) = real_layout(layout.size(), layout.align());
    let base = System.alloc(real);
    if base.is_null() {
        return base;
    }
    let user = base.add(rz);
    std::ptr::write_bytes(base, rz_byte(), rz);
    std::ptr::write_bytes(user.add(layout.size()), rz_byte(), rz);
    if zeroed {
        std::ptr::write_bytes(user, 0, layout.size());
    } else {
        std::ptr::write_bytes(user, fill_byte(), layout.size());
    }
    let seq = SEQ.fetch_add(1, Ordering::Relaxed);
    N_ALLOC.fetch_add(1, Ordering::Relaxed);
    let rec = Rec {
        seq,
        size: layout.size(),
        align: layout.align(),
        rz,
        st: St::Live,
        step: CUR_STEP.load(Ordering::Relaxed) as i64,
        tag: CUR_TAG.load(Ordering::Relaxed) as u32,
    };
    with_table(|t| {
        // a stale quarantined entry at the same address cannot exist: quarantined memory is not
        // returned to System until it is evicted
        t.blocks.insert(user as usize, rec);
    });
    NTRACKED.fetch_add(1, Ordering::Relaxed);
    user
}

enum Lookup {
    Foreign,
    Untracked,
    Live(Rec),
    Freed(Rec),
}

fn lookup(ptr: *mut u8) -> Lookup {
    if NTRACKED.load(Ordering::Relaxed) == 0 {
        return Lookup::Untracked;
    }
    with_table(|t| match t.blocks.get(&(ptr as usize)) {
        None => {
            let p = ptr as usize;
            match t.foreign.range(..=p).next_back() {
                Some((k, sz)) if p < k + (*sz).max(1) => Lookup::Foreign,
                _ => Lookup::Untracked,
            }
        }
        Some(r) if r.st == St::Live => Lookup::Live(*r),
        Some(r) => Lookup::Freed(*r),
    })
}

unsafe fn check_redzones(user: *mut u8, r: &Rec) -> bool {
    let base = user.sub(r.rz);
    let b = rz_byte();
    for i in 0..r.rz {
        if *base.add(i) != b {
            return false;
        }
        if *user.add(r.size + i) != b {
            return false;
        }
    }
    true
}

unsafe fn release_to_system(user: usize, r: &Rec) {
    let (real, rz) = real_layout(r.size, r.align);
    System.dealloc((user as *mut u8).sub(rz), real);
}

/// Handles a free of a tracked block. `presented` = layout given by the caller (None: untracked
/// caller, layout not checked).
unsafe fn tracked_free(ptr: *mut u8, r: Rec, presented: Option<Layout>, what: &str) {
    let mut msgs: Vec<String> = Vec::new();
    let _g = InternalGuard::enter();
    if let Some(l) = presented {
        if l.size() != r.size || l.align() != r.align {
            msgs.push(format!(
                "layout-mismatch: {} of block#{} (allocated size={} align={} at step {}) with size={} align={}",
                what, r.seq - run_start(), r.size, r.align, r.step, l.size(), l.align()
            ));
        }
    }
    if !check_redzones(ptr, &r) {
        msgs.push(format!(
            "redzone-corrupt: block#{} (size={} align={} step {}) written outside its bounds",
            r.seq - run_start(), r.size, r.align, r.step
        ));
    }
    std::ptr::write_bytes(ptr, POISON, r.size);
    N_FREE.fetch_add(1, Ordering::Relaxed);
    let mut evict: Option<(usize, Rec)> = None;
    with_table(|t| {
        if let Some(e) = t.blocks.get_mut(&(ptr as usize)) {
            e.st = St::Freed;
        }
        t.quarantine.push(ptr as usize);
        if t.quarantine.len() > QUARANTINE_MAX {
            let old = t.quarantine.remove(0);
            if let Some(rec) = t.blocks.remove(&old) {
                evict = Some((old, rec));
            }
        }
        t.violations.extend(msgs.drain(..));
    });
    if let Some((p, rec)) = evict {
        NTRACKED.fetch_sub(1, Ordering::Relaxed);
        release_to_system(p, &rec);
    }
}

fn run_start() -> u64 {
    // only for printing run-relative block numbers
    RUN_START.load(Ordering::Relaxed)
}
static RUN_START: AtomicU64 = AtomicU64::new(0);

fn push_violation(s: String) {
    let _g = InternalGuard::enter();
    with_table(|t| t.violations.push(s));
}

unsafe impl GlobalAlloc for SimAlloc {
    unsafe fn alloc(&self, layout: Layout) -> *mut u8 {
        if tracking() {
            tracked_alloc(layout, false)
        } else {
            System.alloc(layout)
        }
    }
    unsafe fn alloc_zeroed(&self, layout: Layout) -> *mut u8 {
        if tracking() {
            tracked_alloc(layout, true)
        } else {
            System.alloc_zeroed(layout)
        }
    }
    unsafe fn dealloc(&self, ptr: *mut u8, layout: Layout) {
        let internal = INTERNAL.try_with(|t| t.get()).unwrap_or(true);
        if internal {
            return System.dealloc(ptr, layout);
        }
        match lookup(ptr) {
            Lookup::Foreign => {
                let _g = InternalGuard::enter();
                push_violation(format!(
                    "cross-module-free: memory owned by the foreign module was passed to this module's allocator (dealloc size={} align={})",
                    layout.size(), layout.align()
                ));
            }
            Lookup::Untracked => System.dealloc(ptr, layout),
            Lookup::Live(r) => {
                let presented = if tracking() { Some(layout) } else { None };
                tracked_free(ptr, r, presented, "dealloc");
            }
            Lookup::Freed(r) => {
                let _g = InternalGuard::enter();
                push_violation(format!(
                    "double-free: block#{} (size={} align={} allocated at step {}) freed again",
                    r.seq - run_start(), r.size, r.align, r.step
                ));
            }
        }
    }
    unsafe fn realloc(&self, ptr: *mut u8, layout: Layout, new_size: usize) -> *mut u8 {
        let internal = INTERNAL.try_with(|t| t.get()).unwrap_or(true);
        if internal {
            return System.realloc(ptr, layout, new_size);
        }
        match lookup(ptr) {
            Lookup::Foreign => {
                let _g = InternalGuard::enter();
                push_violation(format!(
                    "cross-module-free: memory owned by the foreign module was passed to this module's allocator (realloc {} -> {})",
                    layout.size(), new_size
                ));
                let new_l = Layout::from_size_align_unchecked(new_size, layout.align());
                let n = tracked_alloc(new_l, false);
                if !n.is_null() {
                    std::ptr::copy_nonoverlapping(ptr, n, std::cmp::min(layout.size(), new_size));
                }
                n
            }
            Lookup::Untracked => {
                if tracking() {
                    // harness-allocated block grown inside the system under test: becomes tracked
                    let new_l = Layout::from_size_align_unchecked(new_size, layout.align());
                    let n = tracked_alloc(new_l, false);
                    if !n.is_null() {
                        std::ptr::copy_nonoverlapping(ptr, n, std::cmp::min(layout.size(), new_size));
                        System.dealloc(ptr, layout);
                    }
                    N_REALLOC.fetch_add(1, Ordering::Relaxed);
                    n
                } else {
                    System.realloc(ptr, layout, new_size)
                }
            }
            Lookup::Live(r) => {
                let new_l = Layout::from_size_align_unchecked(new_size, layout.align());
                N_REALLOC.fetch_add(1, Ordering::Relaxed);
                let n = if tracking() { tracked_alloc(new_l, false) } else { System.alloc(new_l) };
                if !n.is_null() {
                    std::ptr::copy_nonoverlapping(ptr, n, std::cmp::min(r.size, new_size));
                    let presented = if tracking() { Some(layout) } else { None };
                    tracked_free(ptr, r, presented, "realloc");
                }
                n
            }
            Lookup::Freed(r) => {
                let _g = InternalGuard::enter();
                push_violation(format!(
                    "realloc-after-free: block#{} (size={} align={} step {})",
                    r.seq - run_start(), r.size, r.align, r.step
                ));
                std::ptr::null_mut()
            }
        }
    }
}

// ------------------------------------------------------------------------------------------------
// harness API
// ------------------------------------------------------------------------------------------------

/// Run `f` "inside the system under test": its allocations and frees are tracked.
pub fn track<R>(f: impl FnOnce() -> R) -> R {
    struct Reset(bool);
    impl Drop for Reset {
        fn drop(&mut self) {
            let _ = TRACK.try_with(|t| t.set(self.0));
        }
    }
    let prev = TRACK.with(|t| t.replace(true));
    let _r = Reset(prev);
    f()
}

/// Run `f` with tracking suspended (harness bookkeeping called from inside tracked code,
/// e.g. a payload's Drop writing to the run log).
pub fn untracked<R>(f: impl FnOnce() -> R) -> R {
    struct Reset(bool);
    impl Drop for Reset {
        fn drop(&mut self) {
            let _ = TRACK.try_with(|t| t.set(self.0));
        }
    }
    let prev = TRACK.with(|t| t.replace(false));
    let _r = Reset(prev);
    f()
}

pub fn set_step(step: i64) {
    CUR_STEP.store(step as u64, Ordering::Relaxed);
}
pub fn set_tag(tag: u32) {
    CUR_TAG.store(tag as u64, Ordering::Relaxed);
}

/// Start of a run: flush quarantine, forget everything older, choose the fill pattern.
pub fn run_begin(seed: u64) {
    let mut to_free: Vec<(usize, Rec)> = Vec::new();
    {
        let _g = InternalGuard::enter();
        with_table(|t| {
            let old = std::mem::take(&mut t.quarantine);
            for p in old {
                if let Some(r) = t.blocks.remove(&p) {
                    to_free.push((p, r));
                }
            }
            // blocks leaked by an earlier (failed) run stay where they are but are forgotten
            t.foreign.clear();
            let stale: Vec<usize> = t.blocks.keys().copied().collect();
            for p in stale {
                t.blocks.remove(&p);
            }
            t.violations.clear();
            t.run_start_seq = SEQ.load(Ordering::Relaxed);
        });
        NTRACKED.store(0, Ordering::Relaxed);
        for (p, r) in to_free {
            unsafe { release_to_system(p, &r) };
        }
    }
    RUN_START.store(SEQ.load(Ordering::Relaxed), Ordering::Relaxed);
    let mut b = (seed as u8) | 0x81; // never zero, never ASCII
    if b == POISON {
        b = 0xC7;
    }
    FILL.store(b as u64, Ordering::Relaxed);
    CUR_STEP.store(0, Ordering::Relaxed);
    CUR_TAG.store(0, Ordering::Relaxed);
}

/// Violations the allocator has seen since the last call (layout mismatch, double free, …).
pub fn take_violations() -> Vec<String> {
    if cfg!(miri) {
        return Vec::new();
    }
    let _g = InternalGuard::enter();
    with_table(|t| std::mem::take(&mut t.violations))
}

#[derive(Clone, Debug, PartialEq, Eq)]
pub struct BlockInfo {
    /// run-relative sequence number
    pub id: u64,
    pub size: usize,
    pub align: usize,
    pub step: i64,
    pub tag: u32,
    pub live: bool,
}

/// Live tracked blocks of this run (sorted by id).
pub fn live_blocks() -> Vec<BlockInfo> {
    let _g = InternalGuard::enter();
    with_table(|t| {
        let start = t.run_start_seq;
        let mut v: Vec<BlockInfo> = t
            .blocks
            .values()
            .filter(|r| r.st == St::Live && r.seq >= start)
            .map(|r| BlockInfo { id: r.seq - start, size: r.size, align: r.align, step: r.step, tag: r.tag, live: true })
            .collect();
        v.sort_by_key(|b| b.id);
        v
    })
}

pub fn live_count() -> usize {
    let _g = InternalGuard::enter();
    with_table(|t| {
        let start = t.run_start_seq;
        t.blocks.values().filter(|r| r.st == St::Live && r.seq >= start).count()
    })
}

/// Is `ptr` the start of a tracked block? (used by C14: "owns exactly one block")
pub fn block_at(ptr: *const u8) -> Option<BlockInfo> {
    let _g = InternalGuard::enter();
    with_table(|t| {
        let start = t.run_start_seq;
        t.blocks.get(&(ptr as usize)).map(|r| BlockInfo {
            id: r.seq.wrapping_sub(start),
            size: r.size,
            align: r.align,
            step: r.step,
            tag: r.tag,
            live: r.st == St::Live,
        })
    })
}

/// The tracked block that contains `ptr` (start or interior), if any.
pub fn block_containing(ptr: *const u8) -> Option<(BlockInfo, usize)> {
    let _g = InternalGuard::enter();
    with_table(|t| {
        let start = t.run_start_seq;
        let p = ptr as usize;
        t.blocks.range(..=p).next_back().and_then(|(k, r)| {
            if p < k + r.size.max(1) {
                Some((
                    BlockInfo {
                        id: r.seq.wrapping_sub(start),
                        size: r.size,
                        align: r.align,
                        step: r.step,
                        tag: r.tag,
                        live: r.st == St::Live,
                    },
                    p - k,
                ))
            } else {
                None
            }
        })
    })
}

pub fn counters() -> (u64, u64, u64) {
    (
        N_ALLOC.load(Ordering::Relaxed),
        N_FREE.load(Ordering::Relaxed),
        N_REALLOC.load(Ordering::Relaxed),
    )
}

pub fn fill_pattern() -> u8 {
    fill_byte()
}

/// Arena memory of the simulated foreign module: never belongs to this module's allocator.
pub fn register_foreign(ptr: *const u8, size: usize) {
    let _g = InternalGuard::enter();
    with_table(|t| {
        t.foreign.insert(ptr as usize, size);
    });
    NTRACKED.fetch_add(1, Ordering::Relaxed);
}

pub fn unregister_foreign(ptr: *const u8) {
    let _g = InternalGuard::enter();
    let removed = with_table(|t| t.foreign.remove(&(ptr as usize)).is_some());
    if removed {
        NTRACKED.fetch_sub(1, Ordering::Relaxed);
    }
}
