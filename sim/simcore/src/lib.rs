//! simcore — shared machinery of the deterministic simulator (see /verif/DESIGN.md §2).

pub mod alloc;
pub mod baton;
pub mod plan;
pub mod rng;
pub mod worker;

pub use baton::Baton;
pub use plan::{Plan, Step, VResult, Violation};
pub use rng::{Fnv, Rng};

use std::collections::{BTreeMap, BTreeSet};

/// Per-run context handed to an engine's executor: event log digest, counters, reach measure.
pub struct RunCtx {
    pub baton: Baton,
    log: Fnv,
    pub log_lines: Option<Vec<String>>,
    pub counters: BTreeMap<String, u64>,
    pub states: BTreeSet<u64>,
    pub pairs: BTreeSet<u64>,
    /// cells of a finite coverage matrix the engine wants counted (e.g. C08's cast matrix)
    pub cells: BTreeSet<u64>,
    pub findings: BTreeSet<(String, String)>,
    pub effective_steps: u32,
    pub mutating_steps: u32,
    pub cur_step: i64,
    /// free-running mode (Miri mode B): no baton, end-of-run oracles only
    pub free: bool,
}

impl RunCtx {
    pub fn new(keep_lines: bool) -> Self {
        RunCtx {
            baton: Baton::new(),
            log: Fnv::new(),
            log_lines: if keep_lines { Some(Vec::new()) } else { None },
            counters: BTreeMap::new(),
            states: BTreeSet::new(),
            pairs: BTreeSet::new(),
            cells: BTreeSet::new(),
            findings: BTreeSet::new(),
            effective_steps: 0,
            mutating_steps: 0,
            cur_step: 0,
            free: false,
        }
    }
    pub fn begin_run(&mut self) {
        self.log = Fnv::new();
        if let Some(l) = self.log_lines.as_mut() {
            l.clear();
        }
        self.effective_steps = 0;
        self.mutating_steps = 0;
        self.cur_step = 0;
    }
    /// Append to the event log (never contains addresses, never draws randomness).
    pub fn log(&mut self, s: &str) {
        self.log.str(s);
        if let Some(l) = self.log_lines.as_mut() {
            l.push(s.to_string());
        }
    }
    pub fn log_hash(&self) -> u64 {
        self.log.0
    }
    pub fn count(&mut self, k: &str) {
        self.count_n(k, 1);
    }
    pub fn count_n(&mut self, k: &str, n: u64) {
        if let Some(v) = self.counters.get_mut(k) {
            *v += n;
        } else {
            self.counters.insert(k.to_string(), n);
        }
    }
    /// Record the abstract model state reached after a step and the (state, next-op) pair.
    pub fn reach(&mut self, state_hash: u64, next_op: Option<&str>) {
        if self.states.len() < 4_000_000 {
            self.states.insert(state_hash);
        }
        if let Some(op) = next_op {
            let mut h = Fnv(state_hash);
            h.str(op);
            if self.pairs.len() < 4_000_000 {
                self.pairs.insert(h.0);
            }
        }
    }
    /// A deviation that is recorded as a known finding candidate: the driver decides, from the
    /// committed known-findings file, whether it is listed (KNOWN-FINDING) or not (VIOLATION).
    pub fn finding(&mut self, class: &str, site: &str) {
        self.findings.insert((class.to_string(), site.to_string()));
    }
    pub fn effective(&mut self, mutating: bool) {
        self.effective_steps += 1;
        if mutating {
            self.mutating_steps += 1;
        }
    }
}

/// One simulation engine: a plan generator and an executor with oracles.
pub trait Engine {
    fn name(&self) -> &'static str;
    /// Generate the plan of one run. All randomness of the run is drawn here.
    fn gen(&self, rng: &mut Rng, tier_thorough: bool) -> Plan;
    /// Execute a plan against the real code, checking oracles after every step.
    fn exec(&self, plan: &Plan, ctx: &mut RunCtx) -> VResult;
}

/// Converts pending allocator violations into a `Violation`.
pub fn check_alloc(class_prefix: &str) -> VResult {
    let v = alloc::take_violations();
    if let Some(first) = v.first() {
        let kind = first.split(':').next().unwrap_or("alloc");
        return Err(Violation::new(&format!("{}.alloc.{}", class_prefix, kind), kind, v.join(" | ")));
    }
    Ok(())
}

/// At quiescence: no live tracked block of this run.
pub fn check_no_leak(class_prefix: &str) -> VResult {
    if cfg!(miri) {
        return Ok(());
    }
    let live = alloc::live_blocks();
    if !live.is_empty() {
        let desc: Vec<String> = live
            .iter()
            .take(8)
            .map(|b| format!("block#{} size={} align={} step={}", b.id, b.size, b.align, b.step))
            .collect();
        return Err(Violation::new(
            &format!("{}.alloc.leak", class_prefix),
            "leak",
            format!("{} tracked block(s) still live at quiescence: {}", live.len(), desc.join(", ")),
        ));
    }
    Ok(())
}

/// Generator-side switch (never read during execution): force the C party into every run.
pub fn force_c_party() -> bool {
    std::env::var("SIM_CPARTY").map(|v| v == "1").unwrap_or(false)
}
