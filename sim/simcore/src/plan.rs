//! A run is data: generated before it is executed, serialisable, minimisable, replayable.

use crate::rng::Fnv;
use std::collections::BTreeMap;

#[derive(Clone, Debug, PartialEq, Eq)]
pub struct Step {
    /// logical thread that performs the op
    pub t: u8,
    pub op: String,
    pub a: Vec<i64>,
}

impl Step {
    pub fn new(t: u8, op: &str, a: &[i64]) -> Self {
        Step { t, op: op.to_string(), a: a.to_vec() }
    }
    /// argument i, or 0 when absent (so that argument-dropping minimisation stays well-formed)
    pub fn arg(&self, i: usize) -> i64 {
        self.a.get(i).copied().unwrap_or(0)
    }
    pub fn text(&self) -> String {
        let mut s = format!("t{} {}", self.t, self.op);
        for x in &self.a {
            s.push(' ');
            s.push_str(&x.to_string());
        }
        s
    }
}

#[derive(Clone, Debug, Default, PartialEq, Eq)]
pub struct Plan {
    pub engine: String,
    pub cfg: BTreeMap<String, i64>,
    pub steps: Vec<Step>,
}

impl Plan {
    pub fn new(engine: &str) -> Self {
        Plan { engine: engine.to_string(), cfg: BTreeMap::new(), steps: Vec::new() }
    }
    pub fn cfg(&self, k: &str, default: i64) -> i64 {
        self.cfg.get(k).copied().unwrap_or(default)
    }
    pub fn set(&mut self, k: &str, v: i64) {
        self.cfg.insert(k.to_string(), v);
    }
    pub fn push(&mut self, t: u8, op: &str, a: &[i64]) {
        self.steps.push(Step::new(t, op, a));
    }
    pub fn hash(&self) -> u64 {
        let mut h = Fnv::new();
        h.str(&self.engine);
        for (k, v) in &self.cfg {
            h.str(k);
            h.i64(*v);
        }
        for s in &self.steps {
            h.u64(s.t as u64);
            h.str(&s.op);
            for x in &s.a {
                h.i64(*x);
            }
            h.bytes(&[0xfe]);
        }
        h.0
    }
    /// line-oriented text form (lines may also be separated by ';')
    pub fn to_text(&self) -> String {
        let mut s = format!("engine {}\n", self.engine);
        for (k, v) in &self.cfg {
            s.push_str(&format!("cfg {} {}\n", k, v));
        }
        for st in &self.steps {
            s.push_str(&format!("s {} {}", st.t, st.op));
            for x in &st.a {
                s.push(' ');
                s.push_str(&x.to_string());
            }
            s.push('\n');
        }
        s
    }
    pub fn from_text(txt: &str) -> Result<Plan, String> {
        let mut p = Plan::default();
        for line in txt.split(|c| c == '\n' || c == ';') {
            let line = line.trim();
            if line.is_empty() {
                continue;
            }
            let mut it = line.split_whitespace();
            match it.next() {
                Some("engine") => p.engine = it.next().ok_or("engine name")?.to_string(),
                Some("cfg") => {
                    let k = it.next().ok_or("cfg key")?;
                    let v: i64 = it.next().ok_or("cfg val")?.parse().map_err(|_| "cfg int")?;
                    p.cfg.insert(k.to_string(), v);
                }
                Some("s") => {
                    let t: u8 = it.next().ok_or("thread")?.parse().map_err(|_| "thread int")?;
                    let op = it.next().ok_or("op")?.to_string();
                    let mut a = Vec::new();
                    for x in it {
                        a.push(x.parse::<i64>().map_err(|_| format!("arg int: {}", x))?);
                    }
                    p.steps.push(Step { t, op, a });
                }
                Some(other) => return Err(format!("bad plan line: {}", other)),
                None => {}
            }
        }
        if p.engine.is_empty() {
            return Err("plan without engine".into());
        }
        Ok(p)
    }
}

#[derive(Clone, Debug)]
pub struct Violation {
    /// oracle name, e.g. "arc.count_mismatch" – the minimiser keeps only candidates with the same class
    pub class: String,
    /// step index at which it was detected, -1 = at quiescence
    pub step: i64,
    /// stable identification of *where* (used to match known findings), no addresses
    pub site: String,
    pub msg: String,
}

impl Violation {
    pub fn new(class: &str, site: &str, msg: String) -> Self {
        Violation { class: class.to_string(), step: -1, site: site.to_string(), msg }
    }
}

pub type VResult<T = ()> = Result<T, Violation>;

#[macro_export]
macro_rules! vfail {
    ($class:expr, $site:expr, $($arg:tt)*) => {
        return Err($crate::plan::Violation::new($class, $site, format!($($arg)*)))
    };
}

#[macro_export]
macro_rules! vcheck {
    ($cond:expr, $class:expr, $site:expr, $($arg:tt)*) => {
        if !($cond) {
            return Err($crate::plan::Violation::new($class, $site, format!($($arg)*)));
        }
    };
}
