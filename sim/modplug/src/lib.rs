//! modplug — the separately compiled plugin module of the C05 engine: the same corpus as objsim,
//! its own tagging global allocator, and C-ABI constructors that hand opaque objects to the host.
#![allow(dead_code)]

pub use cglue::trait_group;

#[path = "../../objsim/src/corpus.rs"]
mod corpus;
mod world;

use cglue::prelude::v1::*;
use cglue::trait_group::c_void;
use cglue::*;
use corpus::*;
use std::alloc::{GlobalAlloc, Layout, System};
use world::{Core, HostApi};

// ---------------------------------------------------------------------------------------------
// tagging allocator: every block of this module carries a header; freeing or reallocating a block
// that does not carry it (i.e. memory of another module) aborts with FOREIGN-FREE
// ---------------------------------------------------------------------------------------------

const MAGIC: u64 = 0x504C_5547_494E_4D45; // "PLUGINME"
const HDR: usize = 32;

struct Tagging;
static LIVE: std::sync::atomic::AtomicI64 = std::sync::atomic::AtomicI64::new(0);

fn hdr_for(align: usize) -> usize {
    std::cmp::max(HDR, align)
}

unsafe impl GlobalAlloc for Tagging {
    unsafe fn alloc(&self, l: Layout) -> *mut u8 {
        let h = hdr_for(l.align());
        let base = System.alloc(Layout::from_size_align_unchecked(l.size() + h, l.align().max(8)));
        if base.is_null() {
            return base;
        }
        let user = base.add(h);
        *(user.sub(8) as *mut u64) = MAGIC;
        *(user.sub(16) as *mut u64) = l.size() as u64;
        LIVE.fetch_add(1, std::sync::atomic::Ordering::SeqCst);
        user
    }
    unsafe fn dealloc(&self, p: *mut u8, l: Layout) {
        if *(p.sub(8) as *const u64) != MAGIC || *(p.sub(16) as *const u64) != l.size() as u64 {
            let msg = b"FOREIGN-FREE: the plugin module was asked to free memory it did not allocate (or with a different size)\n";
            let _ = libc_write(2, msg.as_ptr(), msg.len());
            std::process::abort();
        }
        *(p.sub(8) as *mut u64) = 0;
        let h = hdr_for(l.align());
        LIVE.fetch_sub(1, std::sync::atomic::Ordering::SeqCst);
        System.dealloc(p.sub(h), Layout::from_size_align_unchecked(l.size() + h, l.align().max(8)));
    }
}

extern "C" {
    fn write(fd: i32, buf: *const u8, n: usize) -> isize;
}
unsafe fn libc_write(fd: i32, buf: *const u8, n: usize) -> isize {
    write(fd, buf, n)
}

#[global_allocator]
static GLOBAL: Tagging = Tagging;

// ---------------------------------------------------------------------------------------------
// exports
// ---------------------------------------------------------------------------------------------

/// number of blocks of this module's allocator that are live
#[no_mangle]
pub extern "C" fn modplug_live_blocks() -> i64 {
    LIVE.load(std::sync::atomic::Ordering::SeqCst)
}

/// layout facts of the object type of `family`, as this module's compiler sees them
#[no_mangle]
pub extern "C" fn modplug_sizeof(family: u32) -> usize {
    use std::mem::size_of;
    type Ctx = CArc<c_void>;
    match family {
        0 => size_of::<BasicBase<'static, CBox<'static, c_void>, Ctx>>(),
        1 => size_of::<ReadOnlyBase<'static, CBox<'static, c_void>, Ctx>>(),
        2 => size_of::<ShapesBase<'static, CBox<'static, c_void>, Ctx>>(),
        3 => size_of::<IntResBase<'static, CBox<'static, c_void>, Ctx>>(),
        4 => size_of::<ConsumeBase<'static, CBox<'static, c_void>, Ctx>>(),
        5 => size_of::<ChildrenBase<'static, CBox<'static, c_void>, Ctx>>(),
        6 => size_of::<ChildrenMoreBase<'static, CBox<'static, c_void>, Ctx>>(),
        7 => size_of::<GrpA<'static, CBox<'static, c_void>, Ctx>>(),
        8 => size_of::<GrpR<'static, CBox<'static, c_void>, Ctx>>(),
        9 => size_of::<GrpB<'static, CBox<'static, c_void>, Ctx>>(),
        10 => size_of::<GrpD<'static, CBox<'static, c_void>, Ctx>>(),
        11 => size_of::<GrpC<'static, CBox<'static, c_void>, Ctx>>(),
        _ => 0,
    }
}

include!("create_gen.rs");
