//! Plugin-side `Core`: same interface as objsim's, but everything observable is reported to the
//! host through a C-ABI callback table (the two modules may be built by different compilers with
//! different repr(Rust) layouts, so no Rust type is shared across the boundary).

use std::ffi::c_void;
use std::sync::atomic::{AtomicU64, Ordering};

#[repr(C)]
#[derive(Clone, Copy)]
pub struct HostApi {
    pub ctx: *const c_void,
    pub new_id: extern "C" fn(*const c_void, u64) -> u32,
    pub enter: extern "C" fn(*const c_void, u32, *const u8, usize, u64, *const [usize; 2], usize),
    pub mirror: extern "C" fn(*const c_void, u32, u64),
    pub dropped: extern "C" fn(*const c_void, u32),
}
unsafe impl Send for HostApi {}
unsafe impl Sync for HostApi {}

pub struct Core {
    pub id: u32,
    pub state: AtomicU64,
    pub heap: Box<u64>,
    pub buf: Vec<u8>,
    pub text: String,
    pub cell: u64,
    pub api: HostApi,
}

impl Core {
    pub fn new(api: HostApi, seed: u64) -> Core {
        let id = (api.new_id)(api.ctx, seed);
        Core {
            id,
            state: AtomicU64::new(seed),
            heap: Box::new(seed ^ 0xFEED),
            buf: (0..8).map(|i| (seed as u8).wrapping_add(i)).collect(),
            text: format!("core-{}-é", seed % 1000),
            cell: seed.wrapping_mul(3),
            api,
        }
    }
    pub fn enter(&self, method: &'static str, digest: u64, ptrs: &[(usize, usize)]) {
        let p: Vec<[usize; 2]> = ptrs.iter().map(|(a, b)| [*a, *b]).collect();
        (self.api.enter)(self.api.ctx, self.id, method.as_ptr(), method.len(), digest, p.as_ptr(), p.len());
    }
    pub fn get(&self) -> u64 {
        self.state.load(Ordering::SeqCst)
    }
    pub fn mix(&self, v: u64) -> u64 {
        let s = self.state.load(Ordering::SeqCst);
        let n = s.rotate_left(7).wrapping_mul(0x9E37_79B9_7F4A_7C15) ^ v.wrapping_add(0x1357);
        self.state.store(n, Ordering::SeqCst);
        (self.api.mirror)(self.api.ctx, self.id, n);
        n
    }
    pub fn child(&self, salt: u64) -> Core {
        Core::new(self.api, self.get() ^ salt)
    }
}

impl Drop for Core {
    fn drop(&mut self) {
        (self.api.dropped)(self.api.ctx, self.id);
    }
}
