//! The object simulator: seeded histories over generated objects and groups, each paired with an
//! un-erased twin driven by direct trait calls (C01, C02, C04b, C06, C07, C08, C13).

use crate::dispatch::{Meth, Ret, A};
use crate::dynobj::{Arena, DynObj};
use crate::factory::{self, Created, Cx, Reclaim};
use crate::groups_gen::{create_group, GROUP_NCONT, GROUP_OPT};
use crate::world::{CtxPayload, Entry, World, ERASED, TWIN};
use cglue::arc::CArc;
use simcore::alloc::{self, track};
use simcore::{vcheck, Engine, Fnv, Plan, Rng, RunCtx, Step, VResult, Violation};
use std::sync::atomic::Ordering;
use std::sync::{Arc, Mutex, Weak};

pub struct ObjEngine;

struct Pair {
    a: Box<dyn DynObj>,
    b: Box<dyn DynObj>,
    ctxsel: usize,
    family: usize,
    mask: u32,
    cont: usize,
    is_child: bool,
    /// identity of the plain context value this object was built with (known for directly created
    /// objects only; clones, children and cast results carry values made elsewhere)
    plain_serial: Option<u64>,
}

struct State {
    world: Arc<World>,
    slots: Vec<Option<Pair>>,
    ctx_handle: Option<CArc<CtxPayload>>,
    ctx_weak: Weak<CtxPayload>,
    erased_arena: Mutex<Vec<Reclaim>>,
    twin_arena: Arena,
    /// context clones leaked by borrowed wrapped returns so far (known finding C07)
    leaked_arc: i64,
    leaked_plain: i64,
    seed_ctr: u64,
    plugin: Option<crate::plugin::Plugin>,
    layout_disagreement: Option<String>,
}

const BORROWED_RETURNS: [&str; 6] = ["c_ref", "c_mut", "c_group_ref", "c_group_mut", "c_nest", "lend_mut"];
const N_FAMILIES: usize = factory::N_SINGLE + 5;

fn fam(name: &str) -> i64 {
    (0..N_FAMILIES).find(|f| family_name(*f) == name).expect("unknown family") as i64
}

fn family_name(f: usize) -> &'static str {
    ["Basic", "ReadOnly", "Shapes", "IntRes", "Consume", "Children", "ChildrenMore", "Debug", "Display", "AsRef", "IntResMixed", "Attrs", "Life", "Dup", "FwdKV", "FwdIO", "Lend", "GrpA", "GrpR", "GrpB", "GrpD", "GrpC"][f]
}

fn create_pair(st: &mut State, family: usize, mask: u32, cont: usize, ctxsel: usize) -> Option<Pair> {
    st.seed_ctr += 1;
    let seed = 0x5EED_0000 + st.seed_ctr * 0x101;
    let mk = |side: usize, st: &State| -> Option<Created> {
        let cx = Cx {
            world: &st.world,
            side,
            seed,
            ctxsel,
            arc_ctx: if side == ERASED && is_arc(ctxsel) { st.ctx_handle.clone() } else { None },
            erased_arena: &st.erased_arena,
            twin_arena: &st.twin_arena,
        };
        if family < factory::N_SINGLE {
            factory::create_single(family, cont, &cx)
        } else {
            create_group(family - factory::N_SINGLE, mask, cont, &cx)
        }
    };
    if let Some(pl) = st.plugin.as_ref() {
        // C05: every erased object is made by the separately compiled module, boxed, carrying the
        // type-erased reference-counted context that keeps the module loaded
        let ctx = st.ctx_handle.clone()?;
        // the plugin numbers its families without the host-only ext singles
        let pfam = if family < factory::N_PLUGIN_SINGLE { family } else if family >= factory::N_SINGLE { family - (factory::N_SINGLE - factory::N_PLUGIN_SINGLE) } else { return None };
        let family_host = family;
        let family = pfam;
        let hs = crate::plugin_gen::host_sizeof(family as u32);
        let ps = unsafe { (pl.sizeof)(family as u32) };
        if hs != ps {
            st.layout_disagreement = Some(format!("object type of family {} is {} bytes in the host and {} bytes in the plugin", family_name(family), hs, ps));
            return None;
        }
        let opaque: CArc<cglue::trait_group::c_void> = cglue::trait_group::Opaquable::into_opaque(ctx);
        let a = unsafe { track(|| crate::plugin_gen::create_via_plugin(pl.create, family as u32, mask, seed, pl.api, opaque)) }?;
        let b = {
            let cx = Cx { world: &st.world, side: TWIN, seed, ctxsel: 3, arc_ctx: None, erased_arena: &st.erased_arena, twin_arena: &st.twin_arena };
            if family_host < factory::N_SINGLE { factory::create_single(family_host, 0, &cx) } else { create_group(family_host - factory::N_SINGLE, mask, 0, &cx) }
        }?;
        return Some(Pair { a, b: b.obj, ctxsel: 3, family: family_host, mask, cont: 0, is_child: false, plain_serial: None });
    }
    st.world.plain_last_new.store(0, Ordering::SeqCst);
    let a = mk(ERASED, st)?;
    let serial = st.world.plain_last_new.swap(0, Ordering::SeqCst);
    let b = mk(TWIN, st)?;
    Some(Pair { a: a.obj, b: b.obj, ctxsel, family, mask, cont, is_child: false, plain_serial: if ctxsel == 2 && serial != 0 { Some(serial) } else { None } })
}

fn is_arc(ctxsel: usize) -> bool {
    ctxsel == 1 || ctxsel == 3
}

fn method_of(menu: &[Meth], mi: usize) -> Option<Meth> {
    menu.get(mi).copied()
}

/// Compares the two sides' call logs: same length, and entry for entry the same instance (ids
/// are per-side sequence numbers and correspond), the same method and the same argument digest.
fn compare_logs(la: &[Entry], lb: &[Entry], what: &str) -> VResult {
    let n = la.len().min(lb.len());
    for i in 0..n {
        let (x, y) = (&la[i], &lb[i]);
        vcheck!(x.method == y.method, "obj.wrong_method", what, "{}: call #{} reached method `{}` behind the opaque object, the direct call reaches `{}`", what, i, x.method, y.method);
        vcheck!(x.id == y.id, "obj.wrong_instance", what, "{}: `{}` ran on instance {} behind the opaque object, on instance {} directly", what, x.method, x.id, y.id);
        vcheck!(x.digest == y.digest, "obj.args_altered", x.method, "{}: `{}` saw arguments with digest {:#x} behind the opaque object, {:#x} directly", what, x.method, x.digest, y.digest);
    }
    vcheck!(la.len() == lb.len(), "obj.call_count", what, "{}: {} implementor call(s) behind the opaque object, {} directly (erased: {:?}; direct: {:?})", what, la.len(), lb.len(),
        la.iter().map(|e| e.method).collect::<Vec<_>>(), lb.iter().map(|e| e.method).collect::<Vec<_>>());
    Ok(())
}

fn check_world(st: &mut State, when: &str, la: &[Entry]) -> VResult {
    let w = &st.world;
    // C06: live sets agree, nothing destroyed twice
    vcheck!(w.double_drop.load(Ordering::SeqCst) == 0, "life.double_drop", "instance", "{}: an instance was destroyed twice", when);
    let (ia, ib) = (w.live_ids(ERASED), w.live_ids(TWIN));
    if ia != ib {
        let only_a: Vec<u32> = ia.iter().filter(|x| !ib.contains(x)).copied().collect();
        let only_b: Vec<u32> = ib.iter().filter(|x| !ia.contains(x)).copied().collect();
        if !only_a.is_empty() {
            return Err(Violation::new("life.leaked", "instance", format!("{}: instance(s) {:?} are still alive behind opaque objects but would have been destroyed by direct ownership", when, only_a)));
        }
        return Err(Violation::new("life.destroyed_early", "instance", format!("{}: instance(s) {:?} were destroyed behind opaque objects but are alive under direct ownership", when, only_b)));
    }
    // C01: state of every live instance agrees
    for id in &ia {
        let (sa, sb) = (w.mirror(ERASED, *id), w.mirror(TWIN, *id));
        vcheck!(sa == sb, "obj.state_mismatch", "state", "{}: instance {} has state {:x?} behind the opaque object, {:x?} after the same direct calls", when, id, sa, sb);
    }
    // C07: the library must not run after it was unloaded
    {
        let ran = w.ran_after_unload.lock().unwrap();
        vcheck!(ran.is_empty(), "ctx.use_after_unload", "unload", "{}: plugin code ran after the context (library) was released: {:?}", when, &ran[..ran.len().min(4)]);
    }
    vcheck!(w.unload_inside_wrapper.load(Ordering::SeqCst) == 0, "ctx.released_inside_call", "consume", "{}: the context was released while control was still inside the plugin's wrapper function (cglue_wrapped_*)", when);
    // known finding: each borrowed wrapped return on a context-carrying object leaks one clone
    let holders_arc = st.ctx_handle.is_some() as i64 + st.slots.iter().flatten().filter(|p| is_arc(p.ctxsel)).count() as i64;
    let holders_plain = st.slots.iter().flatten().filter(|p| p.ctxsel == 2).count() as i64;
    let _ = la;
    let strong = st.ctx_weak.strong_count() as i64;
    // Every live holder owns one clone. A borrowed wrapped return may additionally keep a clone alive
    // (in the parent's temporary slot) — how long is the implementation's business, so between
    // `holders` and `holders + borrowed returns made so far` everything is accepted while objects
    // live. What is left when no holder remains is judged below and at quiescence.
    if strong < holders_arc || strong > holders_arc + st.leaked_arc {
        let class = if strong < holders_arc { "ctx.released_early" } else { "ctx.count_excess" };
        return Err(Violation::new(class, "arc", format!("{}: reference-counted context has strong count {} but {} live holder(s) (objects carrying it + the harness's own handle){}", when, strong, holders_arc,
            if st.leaked_arc > 0 { format!("; {} borrowed wrapped return(s) were made, so at most {} is explicable", st.leaked_arc, holders_arc + st.leaked_arc) } else { String::new() })));
    }
    if holders_arc == 0 && strong != 0 && strong != st.leaked_arc {
        return Err(Violation::new("ctx.count_excess", "arc", format!("{}: no holder of the context is left but its strong count is {} ({} borrowed wrapped return(s) were made; the recorded known finding leaks exactly one clone per such return)", when, strong, st.leaked_arc)));
    }
    let unloads = w.unloads.load(Ordering::SeqCst);
    if holders_arc == 0 && strong == 0 {
        vcheck!(unloads == 1 && !w.lib_loaded.load(Ordering::SeqCst), "ctx.not_released", "unload", "{}: no holder of the context is left but it was released {} time(s)", when, unloads);
    } else if holders_arc > 0 {
        vcheck!(unloads == 0, "ctx.released_early", "unload", "{}: the context was released while {} holder(s) exist", when, holders_arc);
    }
    {
        let dead = w.plain_dead_use.lock().unwrap();
        vcheck!(dead.is_empty(), "ctx.used_after_release", "plain", "{}: {} (a bitwise copy of a context value outlived the value it was copied from)", when, dead.join("; "));
    }
    let plain = w.plain_live.load(Ordering::SeqCst);
    if plain < holders_plain || plain > holders_plain + st.leaked_plain {
        let class = if plain < holders_plain { "ctx.released_early" } else { "ctx.count_excess" };
        return Err(Violation::new(class, "plain", format!("{}: {} live clone(s) of the plain context but {} live holder(s){}", when, plain, holders_plain,
            if st.leaked_plain > 0 { format!("; {} borrowed wrapped return(s) were made", st.leaked_plain) } else { String::new() })));
    }
    if holders_plain == 0 && plain != 0 && plain != st.leaked_plain {
        return Err(Violation::new("ctx.count_excess", "plain", format!("{}: no holder of the plain context is left but {} clone(s) are alive ({} borrowed wrapped return(s) were made)", when, plain, st.leaked_plain)));
    }
    simcore::check_alloc("life")
}

fn note_findings(st: &State, ctx: &mut RunCtx) {
    // the known finding is reported where it is unambiguous: nobody holds the context any more, yet
    // exactly one clone per borrowed wrapped return is still alive
    let holders_arc = st.ctx_handle.is_some() as i64 + st.slots.iter().flatten().filter(|p| is_arc(p.ctxsel)).count() as i64;
    if holders_arc == 0 && st.leaked_arc > 0 && st.ctx_weak.strong_count() as i64 == st.leaked_arc {
        ctx.finding("ctx.clone_leak", "borrowed wrapped return (wrap_with_obj_ref|obj_mut|group_ref|group_mut), reference-counted context");
    }
    let holders_plain = st.slots.iter().flatten().filter(|p| p.ctxsel == 2).count() as i64;
    if holders_plain == 0 && st.leaked_plain > 0 && st.world.plain_live.load(Ordering::SeqCst) == st.leaked_plain {
        ctx.finding("ctx.clone_leak", "borrowed wrapped return (wrap_with_obj_ref|obj_mut|group_ref|group_mut), plain Clone context");
    }
}

fn count_borrowed(st: &mut State, ctxsel: usize, la: &[Entry]) {
    let n = la.iter().filter(|e| BORROWED_RETURNS.contains(&e.method)).count() as i64;
    match ctxsel {
        1 | 3 => st.leaked_arc += n,
        2 => st.leaked_plain += n,
        _ => {}
    }
}

fn free_slot(st: &State, prefer: usize) -> Option<usize> {
    let n = st.slots.len();
    (0..n).map(|i| (prefer + i) % n).find(|i| st.slots[*i].is_none())
}

/// Registers children returned by both sides as new pairs. Children that find no free slot are
/// destroyed right away (on both sides).
fn adopt_children(st: &mut State, parent_ctx: usize, ra: &mut Ret, rb: &mut Ret, prefer: usize, what: &str) -> VResult {
    let (mut ca, mut cb) = (Vec::new(), Vec::new());
    ra.take_objs(&mut ca);
    rb.take_objs(&mut cb);
    vcheck!(ca.len() == cb.len(), "obj.result_mismatch", what, "{}: {} wrapped object(s) returned through the opaque object, {} directly", what, ca.len(), cb.len());
    for (a, b) in ca.into_iter().zip(cb.into_iter()) {
        match free_slot(st, prefer) {
            Some(s) => {
                let family = if a.n_optional() > 0 { factory::N_SINGLE } else { 0 };
                st.slots[s] = Some(Pair { a, b, ctxsel: parent_ctx, family, mask: 3, cont: 0, is_child: true, plain_serial: None });
            }
            None => {
                track(|| drop(a));
                drop(b);
            }
        }
    }
    Ok(())
}

struct StepOut {
    line: String,
    effective: bool,
    counts: Vec<String>,
}

fn apply(st: &mut State, step: &Step, cell: &mut Option<u64>) -> Result<StepOut, Violation> {
    let n = st.slots.len() as i64;
    let sl = |v: i64| -> usize { v.rem_euclid(n) as usize };
    let mut counts: Vec<String> = Vec::new();
    let w = st.world.clone();
    w.take_log(ERASED);
    w.take_log(TWIN);
    match step.op.as_str() {
        "Create" => {
            let s = sl(step.arg(0));
            if st.slots[s].is_some() {
                return Ok(StepOut { line: "Create noop".into(), effective: false, counts });
            }
            let family = step.arg(1).rem_euclid(N_FAMILIES as i64) as usize;
            let (mask, cont) = if family < factory::N_SINGLE {
                (0u32, step.arg(3).rem_euclid(factory::SINGLE_NCONT[family] as i64) as usize)
            } else {
                let g = family - factory::N_SINGLE;
                (step.arg(2).rem_euclid(1 << GROUP_OPT[g]) as u32, step.arg(3).rem_euclid(GROUP_NCONT[g] as i64) as usize)
            };
            let mut ctxsel = step.arg(4).rem_euclid(4) as usize;
            if is_arc(ctxsel) && st.ctx_handle.is_none() {
                ctxsel = 0; // the library is gone: nothing can be created from it any more
            }
            let pair = create_pair(st, family, mask, cont, ctxsel);
            if let Some(msg) = st.layout_disagreement.take() {
                return Err(Violation::new("mod.layout_disagreement", family_name(family), msg));
            }
            let Some(pair) = pair else { return Ok(StepOut { line: "Create noop(unsupported)".into(), effective: false, counts }) };
            // C04(b): layout facts of the fresh group object
            if let Some(f) = pair.a.layout() {
                vcheck!(f.mandatory_present, "layout.mandatory_null", family_name(family), "a mandatory vtable word of a fresh {} object is null", family_name(family));
                vcheck!(f.optional_present == mask, "layout.optional_words", family_name(family), "{} object built from an implementor enabling {:#b}: optional vtable words present (name order, translated) {:#b}", family_name(family), mask, f.optional_present);
                counts.push("probe.layout_checked".into());
            }
            // C04(b): the container follows the vtable words as instance, context, temporaries — for a
            // boxed object with the reference-counted context: {instance, drop_fn}, then the arc whose
            // first word is the address of the context payload
            if pair.cont == 0 && is_arc(pair.ctxsel) && !cfg!(miri) {
                let words = pair.a.raw_words();
                let nv = pair.a.n_vtbl_words();
                let ctx_ptr = st.ctx_weak.as_ptr() as usize;
                if words.len() >= nv + 5 {
                    vcheck!(words[..nv.min(1)].iter().all(|w| *w != 0), "layout.container_words", family_name(family), "first vtable word of a fresh object is null");
                    vcheck!(words[nv] != 0 && words[nv] != ctx_ptr && words[nv + 1] != 0 && words[nv + 2] == ctx_ptr, "layout.container_words", family_name(family),
                        "{} object: after {} vtable word(s) the container is not laid out as {{instance, drop function}}, context, temporaries (the context payload's address is at word {:?}, expected at word {})",
                        family_name(family), nv, words.iter().position(|w| *w == ctx_ptr), nv + 2);
                    counts.push("probe.container_words_checked".into());
                }
            }
            counts.push(format!("create.{}", family_name(family)));
            counts.push(format!("container.{}", ["box", "mut", "ref", "arcsome"][pair.cont]));
            counts.push(format!("context.{}", ["none", "arc", "plain", "arc_opaque"][pair.ctxsel]));
            if st.plugin.is_some() {
                counts.push("probe.object_created_by_plugin_module".into());
            }
            st.slots[s] = Some(pair);
            Ok(StepOut { line: format!("Create slot={} {} mask={:#b} cont={} ctx={}", s, family_name(family), mask, cont, ctxsel), effective: true, counts })
        }
        "Call" => {
            let s = sl(step.arg(0));
            let Some(mut pair) = st.slots[s].take() else { return Ok(StepOut { line: "Call noop".into(), effective: false, counts }) };
            let menu = pair.a.menu();
            if menu.is_empty() {
                st.slots[s] = Some(pair);
                return Ok(StepOut { line: "Call noop(no methods)".into(), effective: false, counts });
            }
            let mi = step.arg(1).rem_euclid(menu.len() as i64) as usize;
            let meth = method_of(&menu, mi).unwrap();
            let args: Vec<i64> = step.a.iter().skip(2).copied().collect();
            let mut aa = A::new(&args);
            let mut ra = track(|| pair.a.call(mi, &mut aa));
            let la = w.take_log(ERASED);
            let mut ab = A::new(&args);
            let mut rb = pair.b.call(mi, &mut ab);
            let lb = w.take_log(TWIN);
            let what = format!("{}::{}", pair.a.kind(), meth.name);
            let ctxsel = pair.ctxsel;
            st.slots[s] = Some(pair);
            count_borrowed(st, ctxsel, &la);
            compare_logs(&la, &lb, &what)?;
            let real = !matches!(ra, Ret::NoSuchMethod | Ret::NotImpl);
            if real && meth.name == "c_mut_replace" {
                // the wrapper this borrowed return made was moved out and dropped by the caller:
                // its clone is not among those a temporary slot may still keep alive
                match ctxsel {
                    1 | 3 => st.leaked_arc -= 1,
                    2 => st.leaked_plain -= 1,
                    _ => {}
                }
                counts.push("fault.borrowed_wrapper_moved_out_and_dropped".into());
            }
            if real {
                if let Some(first) = la.first() {
                    vcheck!(first.method == meth.logged_as, "obj.wrong_method", &what, "{}: calling `{}` reached `{}`", what, meth.name, first.method);
                    // C02: slices and strs arrive with the same address and length; returned
                    // references point at what the callee returned
                    if !first.ptrs.is_empty() || !aa.sent.is_empty() {
                        vcheck!(first.ptrs == aa.sent, "obj.address_mismatch", meth.name, "{}: (address,len) of buffers differs between caller and callee", what);
                        counts.push("probe.addresses_compared".into());
                    }
                }
            }
            vcheck!(matches!(ra, Ret::NotImpl) == matches!(rb, Ret::NotImpl), "cast.availability", &what, "{}: optional trait {} through the group object but the implementor {} it", what,
                if matches!(ra, Ret::NotImpl) { "is not available" } else { "is available" }, if matches!(rb, Ret::NotImpl) { "does not enable" } else { "enables" });
            vcheck!(ra.hash() == rb.hash(), "obj.result_mismatch", meth.name, "{}: result {} through the opaque object, {} from the direct call", what, ra.describe(), rb.describe());
            adopt_children(st, ctxsel, &mut ra, &mut rb, s + 1, &what)?;
            if matches!(rb, Ret::NotImpl) {
                counts.push("probe.call_on_disabled_optional_trait".into());
            }
            counts.push(format!("method.{}", meth.name));
            if what.starts_with("Grp") {
                counts.push("probe.call_through_group".into());
            }
            Ok(StepOut { line: format!("Call slot={} {} -> {}", s, what, rb.describe()), effective: real, counts })
        }
        "Clone" => {
            let (s, d) = (sl(step.arg(0)), sl(step.arg(1)));
            if s == d || st.slots[s].is_none() || st.slots[d].is_some() {
                return Ok(StepOut { line: "Clone noop".into(), effective: false, counts });
            }
            let pair = st.slots[s].as_ref().unwrap();
            let ca = track(|| pair.a.try_clone());
            let la = w.take_log(ERASED);
            let cb = pair.b.try_clone();
            let lb = w.take_log(TWIN);
            let (ctxsel, family, mask, cont) = (pair.ctxsel, pair.family, pair.mask, pair.cont);
            match (ca, cb) {
                (Some(a), Some(b)) => {
                    compare_logs(&la, &lb, "clone")?;
                    st.slots[d] = Some(Pair { a, b, ctxsel, family, mask, cont, is_child: false, plain_serial: None });
                    Ok(StepOut { line: format!("Clone {}->{}", s, d), effective: true, counts })
                }
                (None, None) => Ok(StepOut { line: "Clone noop(not cloneable)".into(), effective: false, counts }),
                _ => Err(Violation::new("harness.model", "clone", "clone availability differs between sides".into())),
            }
        }
        "Cast" => {
            let s = sl(step.arg(0));
            let Some(pair) = st.slots[s].take() else { return Ok(StepOut { line: "Cast noop".into(), effective: false, counts }) };
            let nopt = pair.a.n_optional();
            if nopt == 0 {
                st.slots[s] = Some(pair);
                return Ok(StepOut { line: "Cast noop(not a group)".into(), effective: false, counts });
            }
            let op = step.arg(1).rem_euclid(5) as u8;
            let requested = 1 + step.arg(2).rem_euclid((1 << nopt) - 1) as u32;
            let mi = step.arg(3).rem_euclid(4096) as usize;
            let args: Vec<i64> = step.a.iter().skip(4).copied().collect();
            let Pair { a, b, ctxsel, family, mask, cont, is_child, plain_serial } = pair;
            let kind = a.kind();
            let mut aa = A::new(&args);
            let (na, mut ra) = track(|| a.cast(op, requested, mi, &mut aa));
            let la = w.take_log(ERASED);
            let mut ab = A::new(&args);
            let (nb, mut rb) = b.cast(op, requested, mi, &mut ab);
            let lb = w.take_log(TWIN);
            let opname = ["check", "as_ref", "as_mut", "cast", "into"][op as usize];
            let what = format!("{}::{}!({:#b})", kind, opname, requested);
            let expect_ok = requested & !mask == 0;
            if let (0, Ret::Multi(v)) = (op, &ra) {
                let n = match v.get(1) { Some(Ret::U(n)) => *n, _ => 0 };
                return Err(Violation::new("cast.operand_evaluations", &what, format!("{}: the object expression handed to the macro was evaluated {} times (once expected: the answer is about the one object it yields)", what, n)));
            }
            let got_ok = match &ra { Ret::B(x) => *x, Ret::Some_(_) => true, _ => false };
            // C08: success iff every requested trait was enabled
            vcheck!(got_ok == expect_ok, "cast.outcome", &what, "{} on a group whose implementor enables {:#b}: {} (expected {})", what, mask, if got_ok { "succeeded" } else { "failed" }, if expect_ok { "success" } else { "failure" });
            match (na, nb) {
                (Some(a), Some(b)) => st.slots[s] = Some(Pair { a, b, ctxsel, family, mask, cont, is_child, plain_serial }),
                (None, None) => {}
                (x, y) => {
                    // keep nothing; report
                    let (xa, yb) = (x.is_some(), y.is_some());
                    return Err(Violation::new("cast.survival", &what, format!("{}: object {} after the operation, the model says it {}", what, if xa { "survives" } else { "is gone" }, if yb { "survives" } else { "is gone" })));
                }
            }
            count_borrowed(st, ctxsel, &la);
            compare_logs(&la, &lb, &what)?;
            vcheck!(ra.hash() == rb.hash(), "obj.result_mismatch", &what, "{}: calls after the cast gave {} through the opaque object, {} directly", what, ra.describe(), rb.describe());
            adopt_children(st, ctxsel, &mut ra, &mut rb, s + 1, &what)?;
            // the cell of the C08 matrix that was exercised
            let mut h = Fnv::new();
            h.u64(family as u64);
            h.u64(mask as u64);
            h.u64(requested as u64);
            h.u64(op as u64);
            h.u64(cont as u64);
            *cell = Some(h.0);
            counts.push(format!("cast.{}.{}", opname, if expect_ok { "ok" } else { "fail" }));
            if !expect_ok && (op == 3 || op == 4) {
                counts.push("fault.failed_cast_destroys_object".into());
            }
            Ok(StepOut { line: format!("Cast slot={} {} -> {}", s, what, rb.describe()), effective: true, counts })
        }
        "Consume" => {
            let s = sl(step.arg(0));
            let Some(pair) = st.slots[s].take() else { return Ok(StepOut { line: "Consume noop".into(), effective: false, counts }) };
            let menu = pair.a.byval_menu();
            if menu.is_empty() || pair.cont != 0 {
                st.slots[s] = Some(pair);
                return Ok(StepOut { line: "Consume noop(no by-value method)".into(), effective: false, counts });
            }
            let mi = step.arg(1).rem_euclid(menu.len() as i64) as usize;
            let meth = menu[mi];
            let args: Vec<i64> = step.a.iter().skip(2).copied().collect();
            let Pair { a, b, ctxsel, plain_serial, .. } = pair;
            let what = format!("{}::{}", a.kind(), meth.name);
            // is this object the last holder of the context? then the unload happens in this call
            let holders_arc = st.ctx_handle.is_some() as i64 + st.slots.iter().flatten().filter(|p| is_arc(p.ctxsel)).count() as i64 + is_arc(ctxsel) as i64;
            if is_arc(ctxsel) && holders_arc == 1 && st.leaked_arc == 0 {
                counts.push("probe.consumed_object_is_last_context_holder".into());
                w.check_backtrace.store(true, Ordering::SeqCst);
            }
            let mut aa = A::new(&args);
            w.events.lock().unwrap().clear();
            w.record_events.store(plain_serial.is_some(), Ordering::SeqCst);
            let mut ra = track(|| a.consume(mi, &mut aa));
            w.record_events.store(false, Ordering::SeqCst);
            w.check_backtrace.store(false, Ordering::SeqCst);
            if let Some(serial) = plain_serial {
                // the object's own context value is the last thing it releases: after its method ran
                // and after its instance was destroyed (if the call destroys it)
                let ev = std::mem::take(&mut *w.events.lock().unwrap());
                if let Some(at) = ev.iter().position(|e| *e == crate::world::Ev::CtxDrop(serial)) {
                    let later: Vec<String> = ev[at + 1..].iter().filter(|e| !matches!(e, crate::world::Ev::CtxDrop(_))).map(|e| format!("{:?}", e)).collect();
                    vcheck!(later.is_empty(), "ctx.released_early", &what, "{}: the consumed object's own context value (#{}) was released before {} — the instance still ran or was still alive without it", what, serial, later.join(", "));
                    counts.push("probe.consume_order_checked".into());
                }
            }
            let la = w.take_log(ERASED);
            let mut ab = A::new(&args);
            let mut rb = b.consume(mi, &mut ab);
            let lb = w.take_log(TWIN);
            compare_logs(&la, &lb, &what)?;
            vcheck!(matches!(ra, Ret::NotImpl) == matches!(rb, Ret::NotImpl), "cast.availability", &what, "{}: availability of the optional by-value trait differs from the enabled set", what);
            vcheck!(ra.hash() == rb.hash(), "obj.result_mismatch", meth.name, "{}: result {} through the opaque object, {} from the direct call", what, ra.describe(), rb.describe());
            adopt_children(st, ctxsel, &mut ra, &mut rb, s, &what)?;
            counts.push(format!("method.{}", meth.name));
            counts.push("op.consume_by_value".into());
            Ok(StepOut { line: format!("Consume slot={} {} -> {}", s, what, rb.describe()), effective: true, counts })
        }
        "Drop" => {
            let s = sl(step.arg(0));
            let Some(pair) = st.slots[s].take() else { return Ok(StepOut { line: "Drop noop".into(), effective: false, counts }) };
            let children_alive = st.slots.iter().flatten().any(|p| p.is_child);
            if !pair.is_child && children_alive {
                counts.push("fault.early_drop_parent_before_children".into());
            }
            let Pair { a, b, .. } = pair;
            track(|| drop(a));
            drop(b);
            Ok(StepOut { line: format!("Drop slot={}", s), effective: true, counts })
        }
        "DropCtx" => match st.ctx_handle.take() {
            Some(h) => {
                let holders = st.slots.iter().flatten().filter(|p| is_arc(p.ctxsel)).count();
                drop(h);
                counts.push(if holders > 0 { "fault.harness_handle_dropped_while_objects_hold_context".into() } else { "probe.unload_by_harness_handle".into() });
                Ok(StepOut { line: "DropCtx".into(), effective: true, counts })
            }
            None => Ok(StepOut { line: "DropCtx noop".into(), effective: false, counts }),
        },
        _ => Ok(StepOut { line: format!("unknown-op {}", step.op), effective: false, counts }),
    }
}

fn state_hash(st: &State) -> u64 {
    let mut h = Fnv::new();
    let mut v: Vec<(usize, u32, usize, usize)> = st.slots.iter().flatten().map(|p| (p.family, p.mask, p.cont, p.ctxsel)).collect();
    v.sort();
    for (f, m, c, x) in v {
        h.u64(f as u64);
        h.u64(m as u64);
        h.u64(c as u64);
        h.u64(x as u64);
    }
    h.u64(st.ctx_handle.is_some() as u64);
    h.u64(st.leaked_arc.min(3) as u64);
    h.0
}

struct SendMut<T>(*mut T);
unsafe impl<T> Send for SendMut<T> {}
impl<T> Clone for SendMut<T> {
    fn clone(&self) -> Self {
        SendMut(self.0)
    }
}
impl<T> Copy for SendMut<T> {}

const OPS: [&str; 7] = ["Create", "Call", "Clone", "Cast", "Consume", "Drop", "DropCtx"];

fn focus() -> String {
    std::env::var("SIM_FOCUS").unwrap_or_default()
}

impl Engine for ObjEngine {
    fn name(&self) -> &'static str {
        "obj"
    }

    fn gen(&self, rng: &mut Rng, thorough: bool) -> Plan {
        let mut p = Plan::new("obj");
        let pool = rng.range(2, 6);
        let threads = rng.range(1, 3);
        p.set("pool", pool);
        p.set("threads", threads);
        let max_steps = if rng.chance(1, 2) { rng.range(3, 10) } else { rng.range(10, if thorough { 50 } else { 32 }) };
        let f = focus();
        // weights: Create Call Clone Cast Consume Drop DropCtx
        let mut w: Vec<u32> = match f.as_str() {
            "calls" => vec![8, 44, 2, 0, 0, 4, 0],
            "life" => vec![12, 10, 6, 10, 8, 14, 2],
            "ctx" => vec![12, 14, 6, 5, 8, 14, 4],
            "casts" => vec![10, 6, 2, 30, 3, 4, 1],
            "intres" => vec![8, 44, 1, 0, 0, 3, 0],
            _ => vec![10, 20, 4, 10, 5, 8, 2],
        };
        for i in 2..w.len() {
            if rng.chance(1, 7) {
                w[i] = 0;
            }
        }
        // family pool of this run (swarm)
        let names: Vec<&str> = match f.as_str() {
            "casts" => vec!["GrpA", "GrpR", "GrpB", "GrpB", "GrpB", "GrpD", "GrpC", "GrpC"],
            // only families whose methods are integer-coded (or deliberately not): a crash in this
            // focus is attributable to the int-result plumbing
            "intres" => vec!["IntRes", "IntRes", "IntResMixed", "IntResMixed", "ChildrenMore", "Debug", "Display"],
            "ctx" => vec!["Children", "Children", "ChildrenMore", "GrpB", "GrpB", "GrpC", "Consume", "Basic", "GrpA", "GrpD", "Dup", "Lend", "Lend", "FwdKV"],
            _ => (0..N_FAMILIES).map(family_name).collect(),
        };
        let fam_pool: Vec<i64> = names.iter().map(|n| fam(n)).collect();
        let ctx_mode = rng.below(4); // 0: mixed, 1: none, 2: arc only, 3: mixed without borrowed children
        p.set("ctx_mode", ctx_mode as i64);
        let no_borrowed = ctx_mode == 3 || (f == "ctx" && rng.chance(1, 3));
        let intres_fail = rng.chance(2, 3);
        let mut created = 0;
        for i in 0..max_steps {
            let t = rng.below(threads as u64) as u8;
            let mut op = OPS[rng.weighted(&w)];
            if i == 0 || (created < 2 && rng.chance(1, 2)) {
                op = "Create";
            }
            let s0 = rng.below(pool as u64) as i64;
            match op {
                "Create" => {
                    created += 1;
                    let fam = *rng.pick(&fam_pool);
                    let ctxsel = match ctx_mode {
                        1 => 0,
                        2 => *rng.pick(&[1, 3]),
                        _ => rng.range(0, 3),
                    };
                    p.push(t, op, &[s0, fam, rng.range(0, 15), rng.range(0, 3), ctxsel]);
                }
                "Call" => {
                    let mut mi = rng.range(0, 63);
                    let a0 = if rng.chance(1, 2) { rng.range(0, 12) } else { rng.range(0, 100000) };
                    let mut a1 = rng.range(0, 12);
                    if f == "intres" && intres_fail {
                        a1 = rng.range(0, 9);
                    }
                    if no_borrowed {
                        // (resolved against the real menu at execution; the executor skips
                        // borrowed-return methods when the plan says so)
                        mi += 0;
                    }
                    p.push(t, op, &[s0, mi, a0, a1, rng.range(0, 20), rng.range(0, 7)]);
                }
                "Clone" => p.push(t, op, &[s0, rng.below(pool as u64) as i64]),
                "Cast" => p.push(t, op, &[s0, rng.range(0, 4), rng.range(0, 14), rng.range(0, 4095), rng.range(0, 12), rng.range(0, 12), rng.range(0, 9)]),
                "Consume" => p.push(t, op, &[s0, rng.range(0, 3), rng.range(0, 12)]),
                _ => p.push(t, op, &[s0]),
            }
        }
        p.set("no_borrowed", no_borrowed as i64);
        // drawn last so that the rest of the plan is what it was before this knob existed
        p.set("ctx_via", rng.range(0, 1));
        p
    }

    fn exec(&self, plan: &Plan, ctx: &mut RunCtx) -> VResult {
        let npool = plan.cfg("pool", 4).clamp(1, 8) as usize;
        let no_borrowed = plan.cfg("no_borrowed", 0) == 1;
        if focus() == "casts" && crate::plugin::plugin_path().is_none() {
            simcore::alloc::untracked(|| crate::layout::opaque_identity(plan.steps.len() as u64))?;
            ctx.count("probe.opaque_identity_checked");
        }
        let world = World::new();
        let mut plugin = None;
        let mut lib = None;
        if let Some(path) = crate::plugin::plugin_path() {
            match crate::plugin::load(&path, &world) {
                Ok((p, l)) => {
                    plugin = Some(p);
                    lib = Some(l);
                }
                Err(e) => return Err(Violation::new("harness.plugin_load", "dlopen", e)),
            }
        }
        let arc = Arc::new(CtxPayload { world: world.clone(), lib });
        let ctx_weak = Arc::downgrade(&arc);
        let mut st = State {
            world,
            slots: (0..npool).map(|_| None).collect(),
            // half of the runs obtain their context the long way round: CArc -> CArcSome -> CArc
            // (what a caller holding an optional handle does before handing it to a constructor)
            ctx_handle: Some(if plan.cfg("ctx_via", 0) == 1 {
                ctx.count("fault.context_obtained_by_conversion");
                match <CArc<CtxPayload>>::from(arc).transpose() {
                    Some(some) => cglue::arc::CArcSome::<CtxPayload>::transpose(some),
                    None => return Err(Violation::new("ctx.conversion_lost", "transpose", "a CArc made from an Arc transposed to None".to_string())),
                }
            } else {
                CArc::from(arc)
            }),
            ctx_weak,
            erased_arena: Mutex::new(Vec::new()),
            twin_arena: Arc::new(Mutex::new(Vec::new())),
            leaked_arc: 0,
            leaked_plain: 0,
            seed_ctr: 0,
            plugin,
            layout_disagreement: None,
        };
        let mut result: VResult = Ok(());
        for (i, step) in plan.steps.iter().enumerate() {
            ctx.cur_step = i as i64;
            alloc::set_step(i as i64);
            // skip borrowed-return methods in runs that must be able to observe the unload
            if no_borrowed && step.op == "Call" {
                let s = step.arg(0).rem_euclid(npool as i64) as usize;
                if let Some(p) = st.slots[s].as_ref() {
                    let menu = p.a.menu();
                    if !menu.is_empty() {
                        let m = menu[step.arg(1).rem_euclid(menu.len() as i64) as usize];
                        if BORROWED_RETURNS.contains(&m.name) {
                            ctx.log(&format!("s{} skipped borrowed-return call", i));
                            continue;
                        }
                    }
                }
            }
            if no_borrowed && step.op == "Cast" {
                // calls after casts may pick borrowed-return methods of Children: avoid the trait
                // altogether by not requesting it is not possible in general; skip casts on GrpB
                let s = step.arg(0).rem_euclid(npool as i64) as usize;
                if let Some(p) = st.slots[s].as_ref() {
                    if p.a.kind() == "GrpB" && p.ctxsel != 0 {
                        ctx.log(&format!("s{} skipped cast on context-carrying GrpB", i));
                        continue;
                    }
                }
            }
            if cfg!(miri) && (step.op == "Consume" || step.op == "Clone") {
                // Miri rejects the unchanged tree's by-value calls (the container is passed through a
                // function pointer whose parameter type differs in its erased type argument); that
                // ABI-compatibility verdict is not one of the properties, so these ops are skipped
                ctx.log(&format!("s{} skipped by-value call under Miri", i));
                continue;
            }
            let mut cell = None;
            // objects that are not Send stay on the executor's thread
            let s = step.arg(0).rem_euclid(npool as i64) as usize;
            let sendable = st.slots[s].as_ref().map(|p| p.a.is_send()).unwrap_or(true);
            let t = if sendable { step.t } else { 0 };
            let stp = SendMut(&mut st as *mut State);
            let cellp = SendMut(&mut cell as *mut Option<u64>);
            let r = ctx.baton.on(t, || {
                let (stp, cellp) = (stp, cellp);
                apply(unsafe { &mut *stp.0 }, step, unsafe { &mut *cellp.0 })
            });
            if t != 0 {
                ctx.count("fault.cross_thread_op");
            }
            let out = match r {
                Ok(o) => o,
                Err(mut v) => {
                    v.step = i as i64;
                    result = Err(v);
                    break;
                }
            };
            for c in &out.counts {
                ctx.count(c);
            }
            if let Some(c) = cell {
                ctx.pairs.insert(c ^ 0xCE11);
                ctx.cells.insert(c);
            }
            if out.effective {
                ctx.count(&format!("op.{}", step.op));
                ctx.effective(step.op != "Call" || true);
            }
            ctx.log(&format!("s{} t{} {}", i, t, out.line));
            if let Err(mut v) = check_world(&mut st, &format!("after step {} ({})", i, step.text()), &[]) {
                v.step = i as i64;
                result = Err(v);
                break;
            }
            note_findings(&st, ctx);
            ctx.reach(state_hash(&st), plan.steps.get(i + 1).map(|s| s.op.as_str()));
        }
        if result.is_err() {
            std::mem::forget(st);
            return result;
        }
        // quiescence: release every object, the harness's own context handle, then the arenas
        ctx.cur_step = -1;
        alloc::set_step(-1);
        let order_rev = plan.cfg("pool", 0) % 2 == 1;
        let idx: Vec<usize> = if order_rev { (0..npool).rev().collect() } else { (0..npool).collect() };
        let r = (|| -> VResult {
            for i in idx {
                if let Some(p) = st.slots[i].take() {
                    let Pair { a, b, .. } = p;
                    track(|| drop(a));
                    drop(b);
                    check_world(&mut st, "while releasing at quiescence", &[])?;
                }
            }
            if let (Some(pl), true) = (st.plugin.as_ref(), st.ctx_handle.is_some() && st.leaked_arc == 0) {
                // memory owned by the module is released by the module: nothing of this run is left in
                // its allocator once every object is gone (the module is still loaded here)
                let now = unsafe { (pl.live_blocks)() };
                vcheck!(now == pl.blocks_at_load, "mod.plugin_memory_left", "allocator", "all objects are gone but the plugin module's allocator has {} live block(s), {} when it was loaded", now, pl.blocks_at_load);
            }
            st.ctx_handle.take();
            check_world(&mut st, "after the last holder was released", &[])?;
            if st.plugin.is_some() && st.world.unloads.load(Ordering::SeqCst) == 1 {
                // did the dynamic loader really unmap the module?
                if let Some(path) = crate::plugin::plugin_path() {
                    let still = unsafe { libloading::os::unix::Library::open(Some(&path), 0x4 | 0x1) }; // RTLD_NOLOAD | RTLD_LAZY
                    match still {
                        Ok(l) => {
                            ctx.count("probe.module_still_mapped_after_last_release");
                            drop(l);
                        }
                        Err(_) => ctx.count("probe.module_unmapped_by_dlclose"),
                    }
                }
            }
            note_findings(&st, ctx);
            // by-reference objects never destroyed what they borrowed: the referents are all
            // still alive (live sets agree with the twin's arena) — reclaim both now
            let rec: Vec<Reclaim> = std::mem::take(&mut *st.erased_arena.lock().unwrap());
            for f in rec {
                f();
            }
            st.twin_arena.lock().unwrap().clear();
            let (ia, ib) = (st.world.live_ids(ERASED), st.world.live_ids(TWIN));
            vcheck!(ia.is_empty() && ib.is_empty(), "life.leaked", "quiescence", "at quiescence instance(s) {:?} (opaque side) / {:?} (direct side) were never destroyed", ia, ib);
            vcheck!(st.world.double_drop.load(Ordering::SeqCst) == 0, "life.double_drop", "instance", "an instance was destroyed twice");
            simcore::check_alloc("life")?;
            simcore::check_no_leak("life")
        })();
        if r.is_err() {
            std::mem::forget(st);
        }
        r
    }
}
