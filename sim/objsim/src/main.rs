//! objsim — simulation of generated objects and groups against un-erased twins.
#![allow(dead_code)]

// the generator emits `crate::trait_group::…` for borrowed wrapped returns (wrap_with_*_ref/_mut)
pub use cglue::trait_group;

mod corpus;
mod dispatch;
mod dynobj;
mod engine;
#[macro_use]
mod factory;
mod groups_gen;
mod layout;
mod plugin;
mod plugin_gen;
mod world;

#[cfg(not(miri))]
#[global_allocator]
static GLOBAL: simcore::alloc::SimAlloc = simcore::alloc::SimAlloc;

fn main() {
    let engines: Vec<&dyn simcore::Engine> = vec![&engine::ObjEngine];
    let code = simcore::worker::worker_main(&engines);
    if code != 0 {
        std::process::exit(code);
    }
}
