//! Host side of the C05 engine: loads the separately compiled plugin module with the real
//! dynamic loader, hands it a C-ABI callback table for everything observable, and keeps the
//! `Library` inside the reference-counted context so that the last release really is `dlclose`.

use crate::world::{Entry, World, ERASED};
use std::collections::BTreeMap;
use std::ffi::c_void;
use std::sync::atomic::{AtomicU64, Ordering};
use std::sync::{Arc, Mutex};

#[repr(C)]
#[derive(Clone, Copy)]
pub struct HostApi {
    pub ctx: *const c_void,
    pub new_id: extern "C" fn(*const c_void, u64) -> u32,
    pub enter: extern "C" fn(*const c_void, u32, *const u8, usize, u64, *const [usize; 2], usize),
    pub mirror: extern "C" fn(*const c_void, u32, u64),
    pub dropped: extern "C" fn(*const c_void, u32),
}
unsafe impl Send for HostApi {}
unsafe impl Sync for HostApi {}

static NAMES: Mutex<BTreeMap<String, &'static str>> = Mutex::new(BTreeMap::new());

fn intern(s: &str) -> &'static str {
    let mut g = NAMES.lock().unwrap();
    if let Some(x) = g.get(s) {
        return x;
    }
    let l: &'static str = Box::leak(s.to_string().into_boxed_str());
    g.insert(s.to_string(), l);
    l
}

extern "C" fn cb_new_id(ctx: *const c_void, seed: u64) -> u32 {
    simcore::alloc::untracked(|| {
        let w = unsafe { &*(ctx as *const World) };
        let id = w.next_id[ERASED].fetch_add(1, Ordering::SeqCst);
        w.live[ERASED].lock().unwrap().insert(id, Arc::new(AtomicU64::new(seed)));
        id
    })
}
extern "C" fn cb_enter(ctx: *const c_void, id: u32, name: *const u8, len: usize, digest: u64, ptrs: *const [usize; 2], n: usize) {
    simcore::alloc::untracked(|| {
        let w = unsafe { &*(ctx as *const World) };
        let name = unsafe { std::str::from_utf8_unchecked(std::slice::from_raw_parts(name, len)) };
        let ptrs: Vec<(usize, usize)> = (0..n).map(|i| unsafe { ((*ptrs.add(i))[0], (*ptrs.add(i))[1]) }).collect();
        w.log[ERASED].lock().unwrap().push(Entry { id, method: intern(name), digest, ptrs });
    })
}
extern "C" fn cb_mirror(ctx: *const c_void, id: u32, state: u64) {
    let w = unsafe { &*(ctx as *const World) };
    if let Some(m) = w.live[ERASED].lock().unwrap().get(&id) {
        m.store(state, Ordering::SeqCst);
    }
}
extern "C" fn cb_dropped(ctx: *const c_void, id: u32) {
    simcore::alloc::untracked(|| {
        let w = unsafe { &*(ctx as *const World) };
        if w.live[ERASED].lock().unwrap().remove(&id).is_none() {
            w.double_drop.fetch_add(1, Ordering::SeqCst);
        }
        w.drop_log[ERASED].lock().unwrap().push(id);
    })
}

pub fn host_api(world: &Arc<World>) -> HostApi {
    HostApi { ctx: Arc::as_ptr(world) as *const c_void, new_id: cb_new_id, enter: cb_enter, mirror: cb_mirror, dropped: cb_dropped }
}

pub struct Plugin {
    pub create: crate::plugin_gen::CreateFn,
    pub live_blocks: unsafe extern "C" fn() -> i64,
    pub sizeof: unsafe extern "C" fn(u32) -> usize,
    pub api: HostApi,
    pub blocks_at_load: i64,
}

/// Loads the module; returns the function table (raw pointers, valid while loaded) and the library.
pub fn load(path: &str, world: &Arc<World>) -> Result<(Plugin, libloading::Library), String> {
    unsafe {
        let lib = libloading::Library::new(path).map_err(|e| format!("cannot load plugin {}: {}", path, e))?;
        let create = *lib.get::<crate::plugin_gen::CreateFn>(b"modplug_create").map_err(|e| e.to_string())?;
        let live_blocks = *lib.get::<unsafe extern "C" fn() -> i64>(b"modplug_live_blocks").map_err(|e| e.to_string())?;
        let sizeof = *lib.get::<unsafe extern "C" fn(u32) -> usize>(b"modplug_sizeof").map_err(|e| e.to_string())?;
        let blocks_at_load = live_blocks();
        Ok((Plugin { create, live_blocks, sizeof, api: host_api(world), blocks_at_load }, lib))
    }
}

pub fn plugin_path() -> Option<String> {
    std::env::var("SIM_PLUGIN").ok().filter(|s| !s.is_empty())
}
