//! Type-erased handle the executor holds for every object on either side.

use crate::corpus::*;
use crate::dispatch::*;
use std::marker::PhantomData;

pub trait DynObj {
    /// may this object be handed to another thread? (erased side decides)
    fn is_send(&self) -> bool {
        false
    }
    fn kind(&self) -> &'static str;
    /// non-consuming methods, flattened over all traits reachable through this object
    fn menu(&self) -> Vec<Meth>;
    fn call(&mut self, mi: usize, a: &mut A) -> Ret;
    fn byval_menu(&self) -> Vec<Meth> {
        Vec::new()
    }
    fn consume(self: Box<Self>, _mi: usize, _a: &mut A) -> Ret {
        Ret::NoSuchMethod
    }
    fn try_clone(&self) -> Option<Box<dyn DynObj>> {
        None
    }
    /// number of optional traits (groups only)
    fn n_optional(&self) -> u32 {
        0
    }
    /// group cast operation `op` for the optional traits in `requested`; returns the object if it
    /// survives and the outcome
    fn cast(self: Box<Self>, _op: u8, _requested: u32, _mi: usize, _a: &mut A) -> (Option<Box<dyn DynObj>>, Ret);
    /// layout facts (erased side only)
    fn layout(&self) -> Option<crate::layout::Facts> {
        None
    }
    /// the object read as raw machine words (erased side only)
    fn raw_words(&self) -> Vec<usize> {
        Vec::new()
    }
    /// number of leading vtable words (1 for single-trait objects)
    fn n_vtbl_words(&self) -> usize {
        1
    }
}

/// conversion of a returned wrapped value into a handle
pub trait IntoDyn<K> {
    fn into_dyn(self) -> Box<dyn DynObj>;
}

pub struct KBasic;
pub struct KReadOnly;
pub struct KShapes;
pub struct KIntRes;
pub struct KConsume;
pub struct KChildren;
pub struct KChildrenMore;
pub struct KGenUsize;
pub struct KDebug;
pub struct KDisplay;
pub struct KAsRef;
pub struct KCloneOnly;
pub struct KIntResMixed;
pub struct KAttrs;
pub struct KDup;
pub struct KKVStore;
pub struct KLend;
pub struct KIOPort;
pub struct KLife;
pub struct KGrpA;
pub struct KGrpR;
pub struct KGrpB;
pub struct KGrpC;
pub struct KGrpD;

pub type Arena = std::sync::Arc<std::sync::Mutex<Vec<Box<dyn std::any::Any>>>>;

/// `Probe::<T>::new().is_send()` is true iff T: Send (only meaningful for concrete T).
pub struct Probe<T>(PhantomData<T>);
impl<T> Probe<T> {
    pub fn new() -> Self {
        Probe(PhantomData)
    }
}
pub trait NotSendFallback {
    fn is_send(&self) -> bool {
        false
    }
}
impl<T> NotSendFallback for Probe<T> {}
impl<T: Send> Probe<T> {
    pub fn is_send(&self) -> bool {
        true
    }
}

macro_rules! holder {
    ($(#[$doc:meta])* $name:ident) => {
        $(#[$doc])*
        pub struct $name<O: 'static, K> {
            pub o: std::mem::ManuallyDrop<O>,
            /// Some: the value is only borrowed by this handle (by-reference containers on the
            /// twin side); when the handle goes away the value moves to the arena instead of
            /// being destroyed.
            pub arena: Option<Arena>,
            _k: PhantomData<fn() -> K>,
        }
        impl<O: 'static, K> $name<O, K> {
            pub fn new(o: O) -> Self {
                Self { o: std::mem::ManuallyDrop::new(o), arena: None, _k: PhantomData }
            }
            pub fn borrowed(o: O, arena: &Arena) -> Self {
                Self { o: std::mem::ManuallyDrop::new(o), arena: Some(arena.clone()), _k: PhantomData }
            }
            pub fn words(&self) -> Vec<usize> {
                let n = std::mem::size_of::<O>() / std::mem::size_of::<usize>();
                let p = &*self.o as *const O as *const usize;
                (0..n).map(|i| unsafe { *p.add(i) }).collect()
            }
            pub fn into_inner(self: Box<Self>) -> O {
                let mut me = *self;
                let o = unsafe { std::mem::ManuallyDrop::take(&mut me.o) };
                std::mem::forget(me);
                o
            }
        }
        impl<O: 'static, K> Drop for $name<O, K> {
            fn drop(&mut self) {
                let o = unsafe { std::mem::ManuallyDrop::take(&mut self.o) };
                match &self.arena {
                    Some(a) => a.lock().unwrap().push(Box::new(o)),
                    None => drop(o),
                }
            }
        }
    };
}

holder!(
    /// Single-trait objects: the same wrapper serves the opaque object and the un-erased twin —
    /// the only difference is which `impl Trait` the compiler selects.
    W
);
holder!(
    /// Erased group object.
    EG
);
holder!(
    /// Un-erased twin of a group object; casts are decided by the enabled-set model.
    RawG
);

/// Everything a raw implementor type provides.
pub trait Everything:
    Basic
    + ReadOnly
    + Shapes
    + IntRes
    + IntResAlias
    + IntResMixed
    + Attrs
    + Life<'static, u64>
    + Consume
    + Gen<usize>
    + Gen<u64>
    + Children<Child = Solo, RefChild = Solo, MutChild = Solo, GChild = Solo, GRefChild = Solo, GMutChild = Solo>
    + ChildrenMore<MChild = Self>
    + IOPort
    + Inspect
    + KVStore
    + KeyDumper
    + HasMask
    + Clone
    + Unpin
    + Send
    + Sized
    + 'static
{
}
impl<T> Everything for T where
    T: Basic
        + ReadOnly
        + Shapes
        + IntRes
        + IntResAlias
        + IntResMixed
        + Attrs
        + Life<'static, u64>
        + Consume
        + Gen<usize>
        + Gen<u64>
        + Children<Child = Solo, RefChild = Solo, MutChild = Solo, GChild = Solo, GRefChild = Solo, GMutChild = Solo>
        + ChildrenMore<MChild = Self>
        + IOPort
        + Inspect
        + KVStore
        + KeyDumper
        + HasMask
        + Clone
        + Unpin
        + Send
        + Sized
        + 'static
{
}

macro_rules! single {
    ($k:ident, $tr:path, $menu:ident, $call:ident, $recv:ident, [$($extra:tt)*]) => {
        impl<O> DynObj for W<O, $k>
        where
            O: $tr + 'static,
            $($extra)*
        {
            fn kind(&self) -> &'static str {
                stringify!($k)
            }
            fn is_send(&self) -> bool {
                stringify!($k) != "KChildren"
            }
            fn menu(&self) -> Vec<Meth> {
                $menu.to_vec()
            }
            fn call(&mut self, mi: usize, a: &mut A) -> Ret {
                single!(@recv $recv, self, $call, mi, a)
            }
            fn raw_words(&self) -> Vec<usize> {
                self.words()
            }
            fn cast(self: Box<Self>, _op: u8, _requested: u32, _mi: usize, _a: &mut A) -> (Option<Box<dyn DynObj>>, Ret) {
                (Some(self), Ret::NoSuchMethod)
            }
        }
    };
    (@recv m, $s:ident, $call:ident, $mi:ident, $a:ident) => { $call(&mut Recv::Mut(&mut *$s.o), $mi, $a) };
    (@recv r, $s:ident, $call:ident, $mi:ident, $a:ident) => { $call(&mut Recv::Ref(&*$s.o), $mi, $a) };
}

single!(KBasic, Basic, BASIC, call_basic, m, []);
single!(KReadOnly, ReadOnly, READONLY, call_readonly, r, []);
single!(KShapes, Shapes, SHAPES, call_shapes, m, []);
single!(KIntRes, RawIntRes, INTRES_SINGLE, call_intres_single, m, []);
single!(KAttrs, Attrs, ATTRS, call_attrs, m, []);
single!(KLife, Life<'static, u64>, LIFE, call_life, m, []);
single!(KDup, Dup, DUP, call_dup, m, [O: IntoDyn<KDup>,]);
single!(KKVStore, KVStore, KVSTORE, call_kvstore, m, []);
single!(KLend, Lend<'static>, LEND, call_lend, m, []);
single!(KIOPort, IOPort, IOPORT, call_ioport, r, []);
impl<T: Dup + 'static> IntoDyn<KDup> for T {
    fn into_dyn(self) -> Box<dyn DynObj> {
        Box::new(W::<T, KDup>::new(self))
    }
}
single!(KIntResMixed, IntResMixed, INTRESMIXED, call_intresmixed, r, []);
single!(KDebug, core::fmt::Debug, FMTDEBUG, call_debug, r, []);
single!(KDisplay, core::fmt::Display, FMTDISPLAY, call_display, r, []);
single!(KAsRef, AsRef<u64>, ASREF, call_asref, r, []);

/// `trait_obj!(x as Clone)`: nothing to call, but the object can be cloned and dropped.
impl<O: Clone + 'static> DynObj for W<O, KCloneOnly> {
    fn kind(&self) -> &'static str {
        "KCloneOnly"
    }
    fn is_send(&self) -> bool {
        true
    }
    fn menu(&self) -> Vec<Meth> {
        Vec::new()
    }
    fn call(&mut self, _mi: usize, _a: &mut A) -> Ret {
        Ret::NoSuchMethod
    }
    fn try_clone(&self) -> Option<Box<dyn DynObj>> {
        Some(Box::new(W::<O, KCloneOnly>::new((*self.o).clone())))
    }
    fn cast(self: Box<Self>, _op: u8, _requested: u32, _mi: usize, _a: &mut A) -> (Option<Box<dyn DynObj>>, Ret) {
        (Some(self), Ret::NoSuchMethod)
    }
}

single!(KChildren, ReplaceMutChild, CHILDREN_SINGLE, call_children_single, m, [
    O::Child: IntoDyn<KBasic>, O::RefChild: ReadOnly, O::MutChild: Basic,
    O::GChild: IntoDyn<KGrpA>, O::GRefChild: ReadOnly, O::GMutChild: Basic,
]);

impl<O> DynObj for W<O, KConsume>
where
    O: Consume + 'static,
{
    fn kind(&self) -> &'static str {
        "KConsume"
    }
    fn menu(&self) -> Vec<Meth> {
        CONSUME.to_vec()
    }
    fn call(&mut self, mi: usize, a: &mut A) -> Ret {
        call_consume(&mut Recv::Ref(&*self.o), mi, a)
    }
    fn byval_menu(&self) -> Vec<Meth> {
        CONSUME_BYVAL.to_vec()
    }
    fn consume(self: Box<Self>, mi: usize, a: &mut A) -> Ret {
        consume_consume(self.into_inner(), mi, a)
    }
    fn cast(self: Box<Self>, _op: u8, _requested: u32, _mi: usize, _a: &mut A) -> (Option<Box<dyn DynObj>>, Ret) {
        (Some(self), Ret::NoSuchMethod)
    }
}

impl<O> DynObj for W<O, KChildrenMore>
where
    O: RawSlotCall + 'static,
    O::MChild: IntoDyn<KBasic>,
{
    fn kind(&self) -> &'static str {
        "KChildrenMore"
    }
    fn menu(&self) -> Vec<Meth> {
        CHILDRENMORE_SINGLE.to_vec()
    }
    fn call(&mut self, mi: usize, a: &mut A) -> Ret {
        call_childrenmore_single(&mut Recv::Ref(&*self.o), mi, a)
    }
    fn byval_menu(&self) -> Vec<Meth> {
        CHILDRENMORE_BYVAL.to_vec()
    }
    fn consume(self: Box<Self>, mi: usize, a: &mut A) -> Ret {
        consume_childrenmore(self.into_inner(), mi, a)
    }
    fn cast(self: Box<Self>, _op: u8, _requested: u32, _mi: usize, _a: &mut A) -> (Option<Box<dyn DynObj>>, Ret) {
        (Some(self), Ret::NoSuchMethod)
    }
}

impl<T: Basic + 'static> IntoDyn<KBasic> for T {
    fn into_dyn(self) -> Box<dyn DynObj> {
        Box::new(W::<T, KBasic>::new(self))
    }
}
