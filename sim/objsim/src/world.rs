//! Per-run shared state of the object simulator: call logs, live sets, mirrors of instance state,
//! the simulated plugin library (C07) and the contexts.

use simcore::alloc::untracked;
use std::collections::BTreeMap;
use std::sync::atomic::{AtomicBool, AtomicI64, AtomicU32, AtomicU64, Ordering};
use std::sync::{Arc, Mutex};

pub const ERASED: usize = 0;
pub const TWIN: usize = 1;

/// side of the implementor that ran last (set by `Core::enter`): lets the shared dispatch code
/// apply, on the direct-call side, a conversion that crossing the boundary is documented to apply
pub static LAST_SIDE: std::sync::atomic::AtomicUsize = std::sync::atomic::AtomicUsize::new(0);

#[derive(Clone, Debug, PartialEq, Eq)]
pub struct Entry {
    pub id: u32,
    pub method: &'static str,
    pub digest: u64,
    /// (address, length) of every slice/str argument as seen inside the implementor, and of every
    /// reference it returned
    pub ptrs: Vec<(usize, usize)>,
}

pub struct World {
    pub log: [Mutex<Vec<Entry>>; 2],
    /// id -> mirror of the instance state (readable without going through cglue)
    pub live: [Mutex<BTreeMap<u32, Arc<AtomicU64>>>; 2],
    pub drop_log: [Mutex<Vec<u32>>; 2],
    pub next_id: [AtomicU32; 2],
    pub double_drop: AtomicU32,
    // --- the simulated plugin library (erased side only) ---
    pub lib_loaded: AtomicBool,
    pub unloads: AtomicU32,
    pub ran_after_unload: Mutex<Vec<String>>,
    pub unload_inside_wrapper: AtomicU32,
    pub check_backtrace: AtomicBool,
    // --- plain clone context bookkeeping ---
    pub plain_live: AtomicI64,
    pub plain_clones: AtomicU64,
    /// every plain context value has its own identity: a clone made from, or a second release of,
    /// a value that was released before is recorded here
    pub plain_serial: AtomicU64,
    pub plain_alive: Mutex<std::collections::BTreeSet<u64>>,
    pub plain_dead_use: Mutex<Vec<String>>,
    pub plain_last_new: AtomicU64,
    /// order of events during one consuming call (erased side): instance entered / instance
    /// destroyed / plain context value released
    pub events: Mutex<Vec<Ev>>,
    pub record_events: AtomicBool,
}

#[derive(Clone, Copy, Debug, PartialEq, Eq)]
pub enum Ev {
    Enter(u32),
    InstDrop(u32),
    CtxDrop(u64),
}

impl World {
    pub fn new() -> Arc<World> {
        Arc::new(World {
            log: [Mutex::new(Vec::new()), Mutex::new(Vec::new())],
            live: [Mutex::new(BTreeMap::new()), Mutex::new(BTreeMap::new())],
            drop_log: [Mutex::new(Vec::new()), Mutex::new(Vec::new())],
            next_id: [AtomicU32::new(0), AtomicU32::new(0)],
            double_drop: AtomicU32::new(0),
            lib_loaded: AtomicBool::new(true),
            unloads: AtomicU32::new(0),
            ran_after_unload: Mutex::new(Vec::new()),
            unload_inside_wrapper: AtomicU32::new(0),
            check_backtrace: AtomicBool::new(false),
            plain_live: AtomicI64::new(0),
            plain_clones: AtomicU64::new(0),
            plain_serial: AtomicU64::new(1),
            plain_alive: Mutex::new(std::collections::BTreeSet::new()),
            plain_dead_use: Mutex::new(Vec::new()),
            plain_last_new: AtomicU64::new(0),
            events: Mutex::new(Vec::new()),
            record_events: AtomicBool::new(false),
        })
    }
    pub fn take_log(&self, side: usize) -> Vec<Entry> {
        std::mem::take(&mut *self.log[side].lock().unwrap())
    }
    pub fn live_ids(&self, side: usize) -> Vec<u32> {
        self.live[side].lock().unwrap().keys().copied().collect()
    }
    pub fn mirror(&self, side: usize, id: u32) -> Option<u64> {
        self.live[side].lock().unwrap().get(&id).map(|m| m.load(Ordering::SeqCst))
    }
}

/// Every implementor wraps one Core: identity, state, heap state, logging, logged destructor.
pub struct Core {
    pub id: u32,
    pub side: usize,
    pub state: AtomicU64,
    pub mirror: Arc<AtomicU64>,
    pub heap: Box<u64>,
    pub buf: Vec<u8>,
    pub text: String,
    pub cell: u64,
    pub world: Arc<World>,
    /// belongs to the simulated plugin library (erased side, created with a context)
    pub in_lib: bool,
}

impl Core {
    pub fn new(world: &Arc<World>, side: usize, seed: u64, in_lib: bool) -> Core {
        untracked(|| {
            let id = world.next_id[side].fetch_add(1, Ordering::SeqCst);
            let mirror = Arc::new(AtomicU64::new(seed));
            world.live[side].lock().unwrap().insert(id, mirror.clone());
            Core {
                id,
                side,
                state: AtomicU64::new(seed),
                mirror,
                heap: Box::new(seed ^ 0xFEED),
                buf: (0..8).map(|i| (seed as u8).wrapping_add(i)).collect(),
                text: format!("core-{}-é", seed % 1000),
                cell: seed.wrapping_mul(3),
                world: world.clone(),
                in_lib,
            }
        })
    }

    /// Called first by every method of every implementor.
    pub fn enter(&self, method: &'static str, digest: u64, ptrs: &[(usize, usize)]) {
        LAST_SIDE.store(self.side, Ordering::SeqCst);
        untracked(|| {
            if self.in_lib && !self.world.lib_loaded.load(Ordering::SeqCst) {
                self.world.ran_after_unload.lock().unwrap().push(format!("method {} of instance {}", method, self.id));
            }
            self.world.log[self.side].lock().unwrap().push(Entry { id: self.id, method, digest, ptrs: ptrs.to_vec() });
            if self.side == ERASED && self.world.record_events.load(Ordering::SeqCst) {
                self.world.events.lock().unwrap().push(Ev::Enter(self.id));
            }
        })
    }

    pub fn get(&self) -> u64 {
        self.state.load(Ordering::SeqCst)
    }

    /// Deterministic state transition; returns the new state.
    pub fn mix(&self, v: u64) -> u64 {
        let s = self.state.load(Ordering::SeqCst);
        let n = s.rotate_left(7).wrapping_mul(0x9E37_79B9_7F4A_7C15) ^ v.wrapping_add(0x1357);
        self.state.store(n, Ordering::SeqCst);
        self.mirror.store(n, Ordering::SeqCst);
        n
    }

    /// A child / clone instance on the same side, same library.
    pub fn child(&self, salt: u64) -> Core {
        Core::new(&self.world, self.side, self.get() ^ salt, self.in_lib)
    }
}

impl Drop for Core {
    fn drop(&mut self) {
        untracked(|| {
            if self.in_lib && !self.world.lib_loaded.load(Ordering::SeqCst) {
                self.world.ran_after_unload.lock().unwrap().push(format!("destructor of instance {}", self.id));
            }
            if self.world.live[self.side].lock().unwrap().remove(&self.id).is_none() {
                self.world.double_drop.fetch_add(1, Ordering::SeqCst);
            }
            self.world.drop_log[self.side].lock().unwrap().push(self.id);
            if self.side == ERASED && self.world.record_events.load(Ordering::SeqCst) {
                self.world.events.lock().unwrap().push(Ev::InstDrop(self.id));
            }
        })
    }
}

/// The payload of the reference-counted context: stands for `libloading::Library`.
/// Dropping it is the unload.
pub struct CtxPayload {
    pub world: Arc<World>,
    /// plugin mode (C05): the loaded module; released (dlclose) right after the flags are set
    pub lib: Option<libloading::Library>,
}

impl Drop for CtxPayload {
    fn drop(&mut self) {
        untracked(|| {
            self.world.lib_loaded.store(false, Ordering::SeqCst);
            self.world.unloads.fetch_add(1, Ordering::SeqCst);
            if !cfg!(miri) && self.world.check_backtrace.load(Ordering::SeqCst) {
                let bt = std::backtrace::Backtrace::force_capture().to_string();
                // a frame of a generated callee-side function: `…::cglue_internal::<lower-case name>`
                // (the caller-side trait impl shows as `…::cglue_internal::<impl …>::method`); the
                // wrappers' private naming scheme is not relied upon
                let mut inside = false;
                let mut rest = bt.as_str();
                while let Some(i) = rest.find("cglue_internal::") {
                    let tail = &rest[i + "cglue_internal::".len()..];
                    if tail.chars().next().map(|c| c.is_ascii_lowercase() || c == '_').unwrap_or(false) {
                        inside = true;
                        break;
                    }
                    rest = tail;
                }
                if inside {
                    self.world.unload_inside_wrapper.fetch_add(1, Ordering::SeqCst);
                }
            }
        })
    }
}

/// A plain `Clone` context (not reference counted): clones and drops are counted.
pub struct PlainCtx {
    pub world: Arc<World>,
    pub tag: u64,
    /// identity of this value (a bitwise copy of a released value shows as a dead serial)
    pub serial: u64,
}
impl PlainCtx {
    fn register(world: &Arc<World>) -> u64 {
        untracked(|| {
            let s = world.plain_serial.fetch_add(1, Ordering::SeqCst);
            world.plain_alive.lock().unwrap().insert(s);
            s
        })
    }
    pub fn new(world: &Arc<World>) -> PlainCtx {
        world.plain_live.fetch_add(1, Ordering::SeqCst);
        let serial = Self::register(world);
        world.plain_last_new.store(serial, Ordering::SeqCst);
        PlainCtx { world: world.clone(), tag: 0xC0FFEE, serial }
    }
}
impl Clone for PlainCtx {
    fn clone(&self) -> Self {
        untracked(|| {
            if !self.world.plain_alive.lock().unwrap().contains(&self.serial) {
                self.world.plain_dead_use.lock().unwrap().push(format!("a context was cloned from context value #{} after that value had been released", self.serial));
            }
        });
        self.world.plain_live.fetch_add(1, Ordering::SeqCst);
        self.world.plain_clones.fetch_add(1, Ordering::SeqCst);
        PlainCtx { world: self.world.clone(), tag: self.tag, serial: Self::register(&self.world) }
    }
}
impl Drop for PlainCtx {
    fn drop(&mut self) {
        self.world.plain_live.fetch_sub(1, Ordering::SeqCst);
        untracked(|| {
            if !self.world.plain_alive.lock().unwrap().remove(&self.serial) {
                self.world.plain_dead_use.lock().unwrap().push(format!("context value #{} was released twice", self.serial));
            }
            if self.world.record_events.load(Ordering::SeqCst) {
                self.world.events.lock().unwrap().push(Ev::CtxDrop(self.serial));
            }
        })
    }
}
