//! Creation of (erased object, twin) pairs for every family × container × context combination.

use crate::corpus::*;
use crate::dynobj::*;
use crate::world::{Core, CtxPayload, PlainCtx, World, ERASED, TWIN};
use cglue::prelude::v1::*;
use cglue::*;
use simcore::alloc::track;
use std::sync::{Arc, Mutex};

pub type Reclaim = Box<dyn FnOnce() + Send>;

pub struct Cx<'a> {
    pub world: &'a Arc<World>,
    pub side: usize,
    pub seed: u64,
    /// 0 = no context, 1 = reference-counted context (the simulated library), 2 = plain Clone context,
    /// 3 = the same reference-counted context in type-erased form (CArc<c_void>)
    pub ctxsel: usize,
    pub arc_ctx: Option<CArc<CtxPayload>>,
    /// referents of by-reference objects on the erased side; reclaimed by the executor at the end
    pub erased_arena: &'a Mutex<Vec<Reclaim>>,
    pub twin_arena: &'a Arena,
}

pub struct Created {
    pub obj: Box<dyn DynObj>,
    pub ctxsel: usize,
    pub borrowed: bool,
}

pub fn leak_mut<T: 'static>(v: T, cx: &Cx) -> &'static mut T {
    let p: *mut T = Box::into_raw(Box::new(v));
    struct P<T>(*mut T);
    unsafe impl<T> Send for P<T> {}
    let pp = P(p);
    cx.erased_arena.lock().unwrap().push(Box::new(move || {
        let pp = pp;
        drop(unsafe { Box::from_raw(pp.0) })
    }));
    unsafe { &mut *p }
}

/// containers: 0 = Box, 1 = &mut, 2 = &, 3 = CArcSome
#[macro_export]
macro_rules! mk_any {
    (@ctx $make:ident, $tr:ident, $wrap:ident, $k:ident, $inst:expr, $cx:ident, $out:ident) => {{
        let inst = $inst;
        let o: Box<dyn DynObj> = match $cx.ctxsel {
            0 => Box::new($wrap::<_, $k>::new(simcore::alloc::track(|| $make!(inst as $tr)))),
            1 => {
                let c = $cx.arc_ctx.clone().expect("no arc context");
                Box::new($wrap::<_, $k>::new(simcore::alloc::track(|| $make!((inst, c) as $tr))))
            }
            2 => {
                let c = $crate::world::PlainCtx::new($cx.world);
                Box::new($wrap::<_, $k>::new(simcore::alloc::track(|| $make!((inst, c) as $tr))))
            }
            _ => {
                // the type-erased form of the reference-counted context (as in examples/plugin-api)
                let c: cglue::arc::CArc<cglue::trait_group::c_void> = cglue::trait_group::Opaquable::into_opaque($cx.arc_ctx.clone().expect("no arc context"));
                Box::new($wrap::<_, $k>::new(simcore::alloc::track(|| $make!((inst, c) as $tr))))
            }
        };
        $out = Some(o);
    }};
    (@cont 0, $make:ident, $tr:ident, $wrap:ident, $k:ident, $ty:ident, $imp:ident, $cont:ident, $cx:ident, $out:ident) => {
        if $cont == 0 {
            mk_any!(@ctx $make, $tr, $wrap, $k, $imp, $cx, $out);
            return_if_some!($out);
        }
    };
    (@cont 1, $make:ident, $tr:ident, $wrap:ident, $k:ident, $ty:ident, $imp:ident, $cont:ident, $cx:ident, $out:ident) => {
        if $cont == 1 {
            let r: &'static mut $ty = $crate::factory::leak_mut($imp, $cx);
            mk_any!(@ctx $make, $tr, $wrap, $k, r, $cx, $out);
            return_if_some!($out);
        }
    };
    (@cont 2, $make:ident, $tr:ident, $wrap:ident, $k:ident, $ty:ident, $imp:ident, $cont:ident, $cx:ident, $out:ident) => {
        if $cont == 2 {
            let r: &'static $ty = &*$crate::factory::leak_mut($imp, $cx);
            mk_any!(@ctx $make, $tr, $wrap, $k, r, $cx, $out);
            return_if_some!($out);
        }
    };
    (@cont 3, $make:ident, $tr:ident, $wrap:ident, $k:ident, $ty:ident, $imp:ident, $cont:ident, $cx:ident, $out:ident) => {
        if $cont == 3 {
            let r = simcore::alloc::track(|| cglue::arc::CArcSome::from($imp));
            mk_any!(@ctx $make, $tr, $wrap, $k, r, $cx, $out);
            return_if_some!($out);
        }
    };
}

/// (each container branch moves `imp`, so every branch must leave the enclosing closure)
#[macro_export]
macro_rules! return_if_some {
    ($out:ident) => {
        return $out;
    };
}

pub const N_SINGLE: usize = 17;
/// single-trait families the plugin module can also make (C05)
pub const N_PLUGIN_SINGLE: usize = 7;
/// containers available per single-trait family
pub const SINGLE_NCONT: [usize; N_SINGLE] = [2, 4, 2, 2, 1, 2, 1, 1, 1, 1, 4, 2, 2, 1, 1, 1, 2];

fn wrapc(o: Option<Box<dyn DynObj>>, cx: &Cx, cont: usize) -> Option<Created> {
    o.map(|obj| Created { obj, ctxsel: cx.ctxsel, borrowed: cont == 1 || cont == 2 })
}

/// Single-trait objects (the implementor is always `Solo`).
pub fn create_single(family: usize, cont: usize, cx: &Cx) -> Option<Created> {
    if cx.side == TWIN {
        let core = Core::new(cx.world, TWIN, cx.seed, false);
        let imp = Solo::new(core);
        // (families 14/15: forwarding objects over a reference, see below)
        let borrowed = cont == 1 || cont == 2 || family == 14 || family == 15;
        macro_rules! tw {
            ($k:ident) => {
                if borrowed { Box::new(W::<Solo, $k>::borrowed(imp, cx.twin_arena)) as Box<dyn DynObj> } else { Box::new(W::<Solo, $k>::new(imp)) as Box<dyn DynObj> }
            };
        }
        let obj: Box<dyn DynObj> = match family {
            0 => tw!(KBasic),
            1 => tw!(KReadOnly),
            2 => tw!(KShapes),
            3 => tw!(KIntRes),
            4 => tw!(KConsume),
            5 => tw!(KChildren),
            6 => tw!(KChildrenMore),
            7 => tw!(KDebug),
            8 => tw!(KDisplay),
            9 => tw!(KAsRef),
            10 => tw!(KIntResMixed),
            11 => tw!(KAttrs),
            12 => tw!(KLife),
            13 => tw!(KDup),
            14 => tw!(KKVStore),
            15 => tw!(KIOPort),
            16 => tw!(KLend),
            _ => return None,
        };
        return Some(Created { obj, ctxsel: cx.ctxsel, borrowed });
    }
    let in_lib = cx.ctxsel == 1 || cx.ctxsel == 3;
    let core = Core::new(cx.world, ERASED, cx.seed, in_lib);
    let imp = Solo::new(core);
    macro_rules! er {
        ($tr:ident, $k:ident, [$($c:tt),*]) => {{
            let f = || -> Option<Box<dyn DynObj>> {
                let mut out: Option<Box<dyn DynObj>> = None;
                $( mk_any!(@cont $c, trait_obj, $tr, W, $k, Solo, imp, cont, cx, out); )*
                out
            };
            wrapc(f(), cx, cont)
        }};
    }
    match family {
        0 => er!(Basic, KBasic, [0, 1]),
        1 => er!(ReadOnly, KReadOnly, [0, 1, 2, 3]),
        2 => er!(Shapes, KShapes, [0, 1]),
        3 => er!(IntRes, KIntRes, [0, 1]),
        4 => er!(Consume, KConsume, [0]),
        5 => er!(Children, KChildren, [0, 1]),
        6 => er!(ChildrenMore, KChildrenMore, [0]),
        7 => er!(Debug, KDebug, [0]),
        8 => er!(Display, KDisplay, [0]),
        9 => er!(AsRef, KAsRef, [0]),
        10 => er!(IntResMixed, KIntResMixed, [0, 1, 2, 3]),
        11 => er!(Attrs, KAttrs, [0, 1]),
        12 => er!(Life, KLife, [0, 1]),
        13 => er!(Dup, KDup, [0]),
        // `Fwd` objects: the instance is a boxed forwarder over a reference (`#[cglue_forward]`
        // generates `impl Trait for Fwd<&mut T>` / `Fwd<&T>`); the referent lives in the arena
        14 => {
            let r: &'static mut Solo = leak_mut(imp, cx);
            let inst = cglue::boxed::CBox::from(cglue::forward::ForwardMut::forward_mut(r));
            let mut out: Option<Box<dyn DynObj>> = None;
            mk_any!(@ctx trait_obj, KVStore, W, KKVStore, inst, cx, out);
            out.map(|obj| Created { obj, ctxsel: cx.ctxsel, borrowed: true })
        }
        15 => {
            let r: &'static Solo = &*leak_mut(imp, cx);
            let inst = cglue::boxed::CBox::from(cglue::forward::Forward::forward(r));
            let mut out: Option<Box<dyn DynObj>> = None;
            mk_any!(@ctx trait_obj, IOPort, W, KIOPort, inst, cx, out);
            out.map(|obj| Created { obj, ctxsel: cx.ctxsel, borrowed: true })
        }
        16 => er!(Lend, KLend, [0, 1]),
        _ => None,
    }
}

/// Group objects: instantiated per concrete implementor type by generated code.
#[macro_export]
macro_rules! mk_group {
    ($grp:ident, $k:ident, $ty:ident, $cont:expr, $cx:expr, [$($c:tt),*]) => {{
        let cx: &$crate::factory::Cx = $cx;
        let cont: usize = $cont;
        let in_lib = cx.side == $crate::world::ERASED && (cx.ctxsel == 1 || cx.ctxsel == 3);
        let core = $crate::world::Core::new(cx.world, cx.side, cx.seed, in_lib);
        let imp = <$ty>::new(core);
        let borrowed = cont == 1 || cont == 2;
        if cx.side == $crate::world::TWIN {
            let obj: Box<dyn DynObj> = if borrowed {
                Box::new(RawG::<$ty, $k>::borrowed(imp, cx.twin_arena))
            } else {
                Box::new(RawG::<$ty, $k>::new(imp))
            };
            Some($crate::factory::Created { obj, ctxsel: cx.ctxsel, borrowed })
        } else {
            let f = || -> Option<Box<dyn DynObj>> {
                let mut out: Option<Box<dyn DynObj>> = None;
                $( mk_any!(@cont $c, group_obj, $grp, EG, $k, $ty, imp, cont, cx, out); )*
                out
            };
            f().map(|obj| $crate::factory::Created { obj, ctxsel: cx.ctxsel, borrowed })
        }
    }};
}

#[allow(unused_imports)]
use {track as _track, CtxPayload as _CtxPayload, PlainCtx as _PlainCtx};
