//! Dynamic dispatch layer: one generic function per corpus trait maps (method index, integer
//! arguments) to a call. The same function is instantiated for the opaque object (the call goes
//! through the generated glue and the vtable) and for the un-erased twin (direct trait call), so
//! both sides are driven with identical arguments.

use crate::corpus::*;
use cglue::prelude::v1::*;
use cglue::trait_group::c_void;
use simcore::Fnv;
use std::pin::Pin;

/// Result of an operation, comparable between the two sides by structural digest.
pub enum Ret {
    Unit,
    U(u64),
    I(i64),
    B(bool),
    Bytes(Vec<u8>),
    Str(String),
    None_,
    Some_(Box<Ret>),
    Ok_(Box<Ret>),
    Err_(Box<Ret>),
    /// io::Error: Some(code) when a non-zero OS code was requested (must survive), None = "some error"
    IoErr(Option<i32>),
    P(Pair),
    V64(Vec<u64>),
    /// an owned wrapped object / group returned by the call
    Obj(Box<dyn crate::dynobj::DynObj>),
    Multi(Vec<Ret>),
    /// optional trait not available through this object
    NotImpl,
    /// the method index does not exist for this object (defined no-op)
    NoSuchMethod,
}

impl Ret {
    pub fn digest(&self, h: &mut Fnv) {
        match self {
            Ret::Unit => h.u64(1),
            Ret::U(v) => { h.u64(2); h.u64(*v) }
            Ret::I(v) => { h.u64(3); h.i64(*v) }
            Ret::B(v) => { h.u64(4); h.u64(*v as u64) }
            Ret::Bytes(v) => { h.u64(5); h.u64(v.len() as u64); h.bytes(v) }
            Ret::Str(v) => { h.u64(6); h.str(v) }
            Ret::None_ => h.u64(7),
            Ret::Some_(r) => { h.u64(8); r.digest(h) }
            Ret::Ok_(r) => { h.u64(9); r.digest(h) }
            Ret::Err_(r) => { h.u64(10); r.digest(h) }
            Ret::IoErr(c) => { h.u64(11); h.i64(c.map(|x| x as i64).unwrap_or(i64::MIN)) }
            Ret::P(p) => { h.u64(12); h.u64(p.a); h.i64(p.b as i64); h.u64(p.c as u64) }
            Ret::V64(v) => { h.u64(13); h.u64(v.len() as u64); for x in v { h.u64(*x) } }
            Ret::Obj(_) => h.u64(14),
            Ret::Multi(v) => { h.u64(15); h.u64(v.len() as u64); for x in v { x.digest(h) } }
            Ret::NotImpl => h.u64(16),
            Ret::NoSuchMethod => h.u64(17),
        }
    }
    pub fn hash(&self) -> u64 {
        let mut h = Fnv::new();
        self.digest(&mut h);
        h.0
    }
    pub fn describe(&self) -> String {
        match self {
            Ret::Unit => "()".into(),
            Ret::U(v) => format!("{:#x}", v),
            Ret::I(v) => format!("{}", v),
            Ret::B(v) => format!("{}", v),
            Ret::Bytes(v) => format!("bytes{:?}", v),
            Ret::Str(v) => format!("{:?}", v),
            Ret::None_ => "None".into(),
            Ret::Some_(r) => format!("Some({})", r.describe()),
            Ret::Ok_(r) => format!("Ok({})", r.describe()),
            Ret::Err_(r) => format!("Err({})", r.describe()),
            Ret::IoErr(c) => format!("io::Error({:?})", c),
            Ret::P(p) => format!("{:?}", p),
            Ret::V64(v) => format!("vec{:x?}", v),
            Ret::Obj(_) => "<object>".into(),
            Ret::Multi(v) => format!("[{}]", v.iter().map(|x| x.describe()).collect::<Vec<_>>().join(", ")),
            Ret::NotImpl => "<trait not available>".into(),
            Ret::NoSuchMethod => "<no such method>".into(),
        }
    }
    /// Moves owned child objects out of the result (depth-first order).
    pub fn take_objs(&mut self, out: &mut Vec<Box<dyn crate::dynobj::DynObj>>) {
        match self {
            Ret::Obj(_) => {
                if let Ret::Obj(o) = std::mem::replace(self, Ret::U(0x0B1)) {
                    out.push(o);
                }
            }
            Ret::Some_(r) | Ret::Ok_(r) | Ret::Err_(r) => r.take_objs(out),
            Ret::Multi(v) => {
                for x in v {
                    x.take_objs(out)
                }
            }
            _ => {}
        }
    }
}

const EDGE_U64: [u64; 12] = [0, 1, 2, 3, 7, 0xff, 0x100, u32::MAX as u64, i32::MAX as u64, i64::MAX as u64, u64::MAX, 0x8000_0000_0000_0000];
const EDGE_I32: [i32; 10] = [0, 1, 2, -1, 5, 0xffff, i32::MIN, i32::MAX, 13, -22];
const STRINGS: [&str; 10] = ["", "a", "héllo wörld", "日本語テキスト", "with\0nul inside", "😀", "0123456789abcdef0123456789abcdef", " trailing ", "rec\0\0\0", "\0"];

/// Argument source: integers of the plan step → concrete values. Records the (address, length)
/// of every buffer handed to / received from the callee, for comparison with what it saw.
pub struct A<'a> {
    pub a: &'a [i64],
    pub sent: Vec<(usize, usize)>,
}

impl<'a> A<'a> {
    pub fn new(a: &'a [i64]) -> Self {
        A { a, sent: Vec::new() }
    }
    pub fn raw(&self, i: usize) -> i64 {
        self.a.get(i).copied().unwrap_or(0)
    }
    pub fn u(&self, i: usize) -> u64 {
        let v = self.raw(i);
        if (0..EDGE_U64.len() as i64).contains(&v) { EDGE_U64[v as usize] } else { (v as u64).wrapping_mul(0x9E37_79B9) }
    }
    pub fn i32(&self, i: usize) -> i32 {
        let v = self.raw(i);
        if (0..EDGE_I32.len() as i64).contains(&v) { EDGE_I32[v as usize] } else { v as i32 }
    }
    pub fn flag(&self, i: usize) -> bool {
        self.raw(i) & 1 == 1
    }
    pub fn bytes(&self, i: usize) -> Vec<u8> {
        let v = self.raw(i);
        let len = v.rem_euclid(20) as usize;
        (0..len).map(|k| (v as u8).wrapping_mul(31).wrapping_add(k as u8 * 7)).collect()
    }
    pub fn words(&self, i: usize) -> Vec<u64> {
        let v = self.raw(i);
        let len = v.rem_euclid(9) as usize;
        (0..len).map(|k| EDGE_U64[(v as usize + k) % EDGE_U64.len()] ^ (k as u64)).collect()
    }
    pub fn string(&self, i: usize) -> String {
        STRINGS[self.raw(i).rem_euclid(STRINGS.len() as i64) as usize].to_string()
    }
    /// which part of a generated buffer is passed: the whole, an empty sub-slice in the middle
    /// (a real interior address with length 0), a tail or a head
    pub fn part<'b, T>(&self, i: usize, v: &'b [T]) -> &'b [T] {
        let k = v.len() / 2;
        match self.raw(i).rem_euclid(5) {
            1 => &v[k..k],
            2 => &v[k..],
            3 => &v[..k],
            4 => &v[v.len()..],
            _ => v,
        }
    }
    pub fn part_str<'b>(&self, i: usize, s: &'b str) -> &'b str {
        let mut k = s.len() / 2;
        while !s.is_char_boundary(k) {
            k -= 1;
        }
        match self.raw(i).rem_euclid(5) {
            1 => &s[k..k],
            2 => &s[k..],
            3 => &s[..k],
            4 => &s[s.len()..],
            _ => s,
        }
    }
    pub fn note<T>(&mut self, s: &[T]) {
        self.sent.push((s.as_ptr() as usize, s.len()));
    }
    pub fn note_str(&mut self, s: &str) {
        self.sent.push((s.as_ptr() as usize, s.len()));
    }
}

/// Receiver: an exclusive or a shared reference to the object (shared after `as_ref!`, or for
/// by-reference / reference-counted containers). Methods needing `&mut self` are defined no-ops
/// through a shared receiver, on both sides alike.
pub enum Recv<'a, O: ?Sized> {
    Mut(&'a mut O),
    Ref(&'a O),
}
impl<'a, O: ?Sized> Recv<'a, O> {
    pub fn r(&self) -> &O {
        match self {
            Recv::Mut(o) => o,
            Recv::Ref(o) => o,
        }
    }
    pub fn m(&mut self) -> Option<&mut O> {
        match self {
            Recv::Mut(o) => Some(o),
            Recv::Ref(_) => None,
        }
    }
}
macro_rules! need_mut {
    ($rv:expr) => {
        match $rv.m() {
            Some(o) => o,
            None => return Ret::NoSuchMethod,
        }
    };
}

#[derive(Clone, Copy)]
pub struct Meth {
    pub name: &'static str,
    /// name the implementor logs first (differs for default methods that delegate)
    pub logged_as: &'static str,
}
const fn m(name: &'static str) -> Meth {
    Meth { name, logged_as: name }
}

// Basic --------------------------------------------------------------------------------------

pub const BASIC: [Meth; 10] = [
    m("b_get"), m("b_add"), m("b_two"), Meth { name: "b_default", logged_as: "b_add" }, m("b_unsafe"), m("b_pin"), m("b_pin_mut"), m("b_c_mut"), m("b_where"), m("b_sub"),
];

pub fn call_basic<O: Basic>(rv: &mut Recv<O>, mi: usize, a: &mut A) -> Ret {
    match mi {
        0 => Ret::U(rv.r().b_get()),
        1 => Ret::U(need_mut!(rv).b_add(a.u(0))),
        2 => Ret::I(need_mut!(rv).b_two(a.u(0) as u32, a.raw(1))),
        3 => Ret::U(need_mut!(rv).b_default(a.u(0))),
        4 => Ret::U(unsafe { rv.r().b_unsafe(a.u(0) as u32) } as u64),
        // the values are never moved while a pinned reference exists
        5 => Ret::U(unsafe { Pin::new_unchecked(rv.r()) }.b_pin()),
        6 => Ret::U(unsafe { Pin::new_unchecked(need_mut!(rv)) }.b_pin_mut(a.u(0))),
        7 => Ret::I(need_mut!(rv).b_c_mut(a.i32(0)) as i64),
        8 => Ret::U(need_mut!(rv).b_where(a.u(0))),
        9 => Ret::U(need_mut!(rv).b_sub(a.u(0), a.u(1))),
        _ => Ret::NoSuchMethod,
    }
}

// ReadOnly -----------------------------------------------------------------------------------

pub const READONLY: [Meth; 7] = [m("r_get"), m("r_touch"), m("r_str"), m("r_slice"), m("r_sum"), m("r_opt"), m("r_cb")];

/// A sink for callback arguments: stops (answers false) at a seeded position.
pub fn run_cb(stop_at: i64, f: impl FnOnce(OpaqueCallback<u64>) -> u32) -> Ret {
    let mut seen: Vec<u64> = Vec::new();
    let mut after_false = 0u64;
    let mut stopped = false;
    let n = {
        let mut sink = |v: u64| -> bool {
            if stopped {
                after_false += 1;
            }
            seen.push(v);
            if stop_at >= 0 && seen.len() as i64 > stop_at {
                stopped = true;
                false
            } else {
                true
            }
        };
        f(OpaqueCallback::from(&mut sink))
    };
    Ret::Multi(vec![Ret::U(n as u64), Ret::V64(seen), Ret::U(after_false)])
}

pub fn call_readonly<O: ReadOnly + ?Sized>(rv: &mut Recv<O>, mi: usize, a: &mut A) -> Ret {
    let o = rv.r();
    match mi {
        0 => Ret::U(o.r_get()),
        1 => Ret::U(o.r_touch(a.u(0))),
        2 => {
            let s = o.r_str();
            a.note_str(s);
            Ret::Str(s.to_string())
        }
        3 => {
            let s = o.r_slice();
            a.note(s);
            Ret::Bytes(s.to_vec())
        }
        4 => {
            let v = a.words(0);
            let v = a.part(1, &v);
            a.note(v);
            Ret::U(o.r_sum(v))
        }
        5 => {
            let arg = if a.flag(1) { Some(a.u(0) as usize) } else { None };
            match o.r_opt(arg) {
                Some(x) => Ret::Some_(Box::new(Ret::U(x))),
                None => Ret::None_,
            }
        }
        6 => {
            let n = a.raw(0).rem_euclid(9) as u32;
            let stop = a.raw(1).rem_euclid(10) - 1;
            run_cb(stop, |cb| o.r_cb(n, cb))
        }
        _ => Ret::NoSuchMethod,
    }
}

// Shapes -------------------------------------------------------------------------------------

pub const SHAPES: [Meth; 38] = [
    m("s_slice"), m("s_slice_u64"), m("s_slice_mut"), m("s_str"), m("s_opt"), m("s_opt_ref"), m("s_mixed"), m("s_res"), m("s_into"), m("s_struct"),
    m("s_cb"), m("s_iter"), m("s_ret_str"), m("s_ret_slice"), m("s_ret_mut_slice"), m("s_ret_opt_ref"), m("s_str_to_str"), m("s_vec"), m("s_mut_ref"), m("s_two_slices"), m("s_opt_then_slice"), m("s_two_mut"), m("s_unit_slice"), m("s_ret_unit_slice"), m("s_two_opts"), m("s_two_into"),
    m("s_unit"), m("s_opt_mut"), m("s_ret_mut"), m("s_ret_opt_mut"), m("s_nz"), m("s_nested"), m("s_raw"), m("s_ctup"), m("s_copt"), m("s_cstr"), m("s_slices"), m("s_copy"),
];

/// Source iterator for CIterator arguments: counts how far it was advanced.
struct CountIter {
    next: u64,
    end: u64,
    pulled: u64,
}
impl Iterator for CountIter {
    type Item = u64;
    fn next(&mut self) -> Option<u64> {
        if self.next >= self.end {
            return None;
        }
        self.pulled += 1;
        self.next += 1;
        Some((self.next - 1).wrapping_mul(0x0101_0101))
    }
}

pub fn call_shapes<O: Shapes + ?Sized>(rv: &mut Recv<O>, mi: usize, a: &mut A) -> Ret {
    match mi {
        0 => {
            let o = need_mut!(rv);
            let v = a.bytes(0);
            let v = a.part(1, &v);
            a.note(v);
            Ret::U(o.s_slice(v) as u64)
        }
        1 => {
            let o = need_mut!(rv);
            let v = a.words(0);
            let v = a.part(1, &v);
            a.note(v);
            Ret::U(o.s_slice_u64(v))
        }
        2 => {
            let o = need_mut!(rv);
            let mut v = a.bytes(0);
            let (lo, hi) = {
                let p = a.part(1, &v);
                let lo = p.as_ptr() as usize - v.as_ptr() as usize;
                (lo, lo + p.len())
            };
            a.note(&v[lo..hi]);
            let k = o.s_slice_mut(&mut v[lo..hi]);
            Ret::Multi(vec![Ret::U(k as u64), Ret::Bytes(v)])
        }
        3 => {
            let o = need_mut!(rv);
            let s = a.string(0);
            let s = a.part_str(1, &s);
            a.note_str(s);
            Ret::U(o.s_str(s))
        }
        4 => {
            let o = need_mut!(rv);
            let arg = if a.flag(1) { Some(a.u(0) as usize) } else { None };
            match o.s_opt(arg) {
                Some(x) => Ret::Some_(Box::new(Ret::U(x))),
                None => Ret::None_,
            }
        }
        5 => {
            let val = a.u(0);
            if a.flag(1) {
                a.sent.push((&val as *const u64 as usize, 1));
                Ret::U(rv.r().s_opt_ref(Some(&val)))
            } else {
                a.sent.push((0, 0));
                Ret::U(rv.r().s_opt_ref(None))
            }
        }
        6 => {
            let o = need_mut!(rv);
            let x = a.u(0);
            let r = if a.flag(1) { Some(&x) } else { None };
            let ov = if a.raw(1) & 2 == 2 { Some(a.u(2)) } else { None };
            match o.s_mixed(r, ov) {
                Some(v) => Ret::Some_(Box::new(Ret::U(v as u64))),
                None => Ret::None_,
            }
        }
        7 => {
            let o = need_mut!(rv);
            let arg = if a.flag(1) { Ok(a.u(0) as u32) } else { Err(a.i32(0)) };
            match o.s_res(arg) {
                Ok(v) => Ret::Ok_(Box::new(Ret::U(v))),
                Err(e) => Ret::Err_(Box::new(Ret::I(e as i64))),
            }
        }
        8 => {
            let o = need_mut!(rv);
            if a.flag(1) { Ret::U(o.s_into(a.u(0) as u32)) } else { Ret::U(o.s_into(a.u(0))) }
        }
        9 => Ret::P(need_mut!(rv).s_struct(Pair { a: a.u(0), b: a.i32(1), c: a.raw(2) as u8 })),
        10 => {
            let o = need_mut!(rv);
            let n = a.raw(0).rem_euclid(9) as u32;
            let stop = a.raw(1).rem_euclid(10) - 1;
            run_cb(stop, |cb| o.s_cb(n, cb))
        }
        11 => {
            let o = need_mut!(rv);
            let mut it = CountIter { next: a.raw(0).rem_euclid(5) as u64, end: a.raw(0).rem_euclid(5) as u64 + a.raw(1).rem_euclid(7) as u64, pulled: 0 };
            let take = a.raw(2).rem_euclid(8) as u32;
            let r = o.s_iter(take, CIterator::new(&mut it));
            // the caller keeps using the source afterwards
            let rest: Vec<u64> = it.by_ref().collect();
            Ret::Multi(vec![Ret::U(r), Ret::U(it.pulled), Ret::V64(rest)])
        }
        12 => {
            let s = rv.r().s_ret_str();
            a.note_str(s);
            Ret::Str(s.to_string())
        }
        13 => {
            let s = rv.r().s_ret_slice();
            a.note(s);
            Ret::Bytes(s.to_vec())
        }
        14 => {
            let o = need_mut!(rv);
            let k = a.raw(0) as u8;
            let s = o.s_ret_mut_slice();
            a.sent.push((s.as_ptr() as usize, s.len()));
            // the caller writes through the returned mutable slice; the callee's state must change
            if !s.is_empty() {
                let last = s.len() - 1;
                s[last] = s[last].wrapping_add(k);
            }
            let copy = s.to_vec();
            let again = o.s_ret_slice().to_vec();
            Ret::Multi(vec![Ret::Bytes(copy), Ret::Bytes(again)])
        }
        15 => {
            let r = rv.r().s_ret_opt_ref(a.flag(0));
            a.sent.push((r.map(|x| x as *const u64 as usize).unwrap_or(0), r.is_some() as usize));
            match r {
                Some(v) => Ret::Some_(Box::new(Ret::U(*v))),
                None => Ret::None_,
            }
        }
        16 => {
            let o = need_mut!(rv);
            let s = a.string(0);
            a.note_str(&s);
            let r = o.s_str_to_str(&s);
            a.sent.push((r.as_ptr() as usize, r.len()));
            Ret::Str(r.to_string())
        }
        17 => {
            let o = need_mut!(rv);
            let v = CVec::from(a.words(0));
            let r = o.s_vec(v);
            Ret::V64(r.iter().copied().collect())
        }
        19 => {
            let o = need_mut!(rv);
            let (va, vb) = (a.bytes(0), a.bytes(1));
            let (pa, pb) = (a.part(2, &va), a.part(3, &vb));
            a.note(pa);
            a.note(pb);
            Ret::I(o.s_two_slices(pa, pb))
        }
        20 => {
            let o = need_mut!(rv);
            let opt = if a.flag(1) { Some(a.u(0)) } else { None };
            let w = a.words(2);
            let w = a.part(3, &w);
            let t = a.string(1);
            a.note(w);
            a.note_str(&t);
            Ret::U(o.s_opt_then_slice(opt, w, &t))
        }
        21 => {
            let o = need_mut!(rv);
            let mut v = a.bytes(0);
            let mut n = a.u(1) as u32;
            a.note(&v);
            a.sent.push((&mut n as *mut u32 as usize, 1));
            let r = o.s_two_mut(&mut v, &mut n);
            Ret::Multi(vec![Ret::U(r as u64), Ret::Bytes(v), Ret::U(n as u64)])
        }
        37 => {
            // input and output: neighbours in one buffer (either order) or separate buffers
            let o = need_mut!(rv);
            let mut buf = a.bytes(0);
            let k = if buf.is_empty() { 0 } else { (a.u(1) as usize) % (buf.len() + 1) };
            let mut other = a.bytes(2);
            let r = match a.raw(3).rem_euclid(3) {
                0 => {
                    let (src, dst) = buf.split_at_mut(k);
                    a.sent.push((src.as_ptr() as usize, src.len()));
                    a.sent.push((dst.as_ptr() as usize, dst.len()));
                    o.s_copy(src, dst)
                }
                1 => {
                    let (dst, src) = buf.split_at_mut(k);
                    a.sent.push((src.as_ptr() as usize, src.len()));
                    a.sent.push((dst.as_ptr() as usize, dst.len()));
                    o.s_copy(src, dst)
                }
                _ => {
                    a.sent.push((buf.as_ptr() as usize, buf.len()));
                    a.sent.push((other.as_ptr() as usize, other.len()));
                    o.s_copy(&buf, &mut other)
                }
            };
            Ret::Multi(vec![Ret::U(r as u64), Ret::Bytes(buf), Ret::Bytes(other)])
        }
        18 => {
            let o = need_mut!(rv);
            let mut x = a.u(0);
            a.sent.push((&mut x as *mut u64 as usize, 1));
            let b = o.s_mut_ref(&mut x);
            Ret::Multi(vec![Ret::B(b), Ret::U(x)])
        }
        22 => {
            let o = need_mut!(rv);
            let n = (a.u(0) % 1500) as usize;
            let v = &TICKS[(a.u(1) % 7) as usize..][..n];
            a.note(v);
            Ret::U(o.s_unit_slice(v) as u64)
        }
        24 => {
            let o = need_mut!(rv);
            let lo = if a.flag(2) { Some(a.u(0)) } else { None };
            let hi = if a.raw(3) % 4 != 0 { Some(a.u(1) ^ 0xF0F0) } else { None };
            Ret::U(o.s_two_opts(lo, hi))
        }
        25 => {
            let o = need_mut!(rv);
            Ret::U(o.s_two_into(a.u(0) as u32, a.u(1) ^ 0x1_0000_0001))
        }
        26 => {
            need_mut!(rv).s_unit(a.u(0));
            Ret::Unit
        }
        27 => {
            let o = need_mut!(rv);
            let mut x = a.u(0);
            let some = a.flag(1);
            a.sent.push(if some { (&mut x as *mut u64 as usize, 1) } else { (0, 0) });
            let b = o.s_opt_mut(if some { Some(&mut x) } else { None });
            Ret::Multi(vec![Ret::B(b), Ret::U(x)])
        }
        28 => {
            let o = need_mut!(rv);
            let r = o.s_ret_mut();
            a.sent.push((r as *mut u64 as usize, 1));
            *r = r.wrapping_add(a.u(0));
            Ret::U(*r)
        }
        29 => {
            let o = need_mut!(rv);
            let some = a.flag(0);
            let r = o.s_ret_opt_mut(some);
            a.sent.push((r.as_ref().map(|x| *x as *const u64 as usize).unwrap_or(0), r.is_some() as usize));
            match r {
                Some(v) => {
                    *v ^= 0x5;
                    Ret::Some_(Box::new(Ret::U(*v)))
                }
                None => Ret::None_,
            }
        }
        30 => {
            let v = core::num::NonZeroU32::new(a.u(0) as u32 & if a.flag(1) { 0 } else { !0 });
            match rv.r().s_nz(v) {
                Some(x) => Ret::Some_(Box::new(Ret::U(x.get() as u64))),
                None => Ret::None_,
            }
        }
        31 => {
            let v = match a.raw(1).rem_euclid(3) { 0 => None, 1 => Some(None), _ => Some(Some(a.u(0))) };
            match rv.r().s_nested(v) {
                None => Ret::None_,
                Some(None) => Ret::Some_(Box::new(Ret::None_)),
                Some(Some(x)) => Ret::Some_(Box::new(Ret::Some_(Box::new(Ret::U(x))))),
            }
        }
        32 => {
            let src = a.u(0);
            let mut dst = 0u64;
            a.sent.push((&src as *const u64 as usize, 1));
            a.sent.push((&mut dst as *mut u64 as usize, 1));
            let r = rv.r().s_raw(&src, &mut dst);
            Ret::Multi(vec![Ret::B(r == &dst as *const u64), Ret::U(dst)])
        }
        33 => {
            let r = rv.r().s_ctup(CTup2(a.u(0), a.i32(1)));
            Ret::Multi(vec![Ret::U(r.0 as u64), Ret::U(r.1), Ret::I(r.2 as i64)])
        }
        34 => {
            let arg: COption<u64> = if a.flag(1) { Some(a.u(0)).into() } else { None.into() };
            let r: Result<u64, i32> = rv.r().s_copt(arg).into();
            match r {
                Ok(v) => Ret::Ok_(Box::new(Ret::U(v))),
                Err(e) => Ret::Err_(Box::new(Ret::I(e as i64))),
            }
        }
        35 => {
            let s = std::ffi::CString::new(a.string(0).replace('\0', "")).unwrap();
            Ret::U(rv.r().s_cstr(ReprCStr::from(s.as_c_str())))
        }
        36 => {
            let b0 = a.bytes(0);
            let b1 = a.bytes(1);
            let v = [CSliceRef::from(&b0[..]), CSliceRef::from(&b1[..]), CSliceRef::from(&b0[..b0.len() / 2])];
            let n = (a.raw(2).rem_euclid(4)) as usize;
            a.note(&v[..n.min(3)]);
            Ret::U(rv.r().s_slices(&v[..n.min(3)]) as u64)
        }
        23 => {
            let r = rv.r().s_ret_unit_slice();
            a.sent.push((r.as_ptr() as usize, r.len()));
            Ret::U(r.len() as u64)
        }
        _ => Ret::NoSuchMethod,
    }
}

// IntRes -------------------------------------------------------------------------------------

pub const INTRES: [Meth; 10] = [m("ir_io"), m("ir_io_unit"), m("ir_unit_err"), m("ir_fmt"), m("ir_my"), m("ir_vec"), m("ir_plain"), m("ir_alias"), m("ir_one"), m("ir_one_unit")];

fn io_ret(requested: i32, non_os: bool, e: std::io::Error) -> Ret {
    if !non_os && requested != 0 {
        Ret::Err_(Box::new(Ret::IoErr(e.raw_os_error())))
    } else {
        Ret::Err_(Box::new(Ret::IoErr(None)))
    }
}

/// A foreign caller's call of integer-result entries: through the vtable getter, with a result slot
/// it filled beforehand. `Err((untouched, code))`: whether a failed call left the slot as it was,
/// and the code it returned.
pub trait RawIntRes: IntRes {
    fn ir_io_rawslot(&mut self, code: i32, non_os: bool) -> Result<u64, (bool, i32)>;
    fn ir_vec_rawslot(&mut self, code: i32, n: u32) -> Result<CVec<u64>, (bool, i32)>;
}

impl RawIntRes for Solo {
    fn ir_io_rawslot(&mut self, code: i32, non_os: bool) -> Result<u64, (bool, i32)> {
        // (an OS code survives as it is; any other error is just "not zero")
        self.ir_io(code, non_os).map_err(|e| (true, if non_os { 1 } else { e.raw_os_error().unwrap_or(1) }))
    }
    fn ir_vec_rawslot(&mut self, code: i32, n: u32) -> Result<CVec<u64>, (bool, i32)> {
        self.ir_vec(code, n).map_err(|_| (true, 1))
    }
}

fn prefilled<T>() -> (core::mem::MaybeUninit<T>, usize) {
    let mut slot = core::mem::MaybeUninit::<T>::uninit();
    let n = core::mem::size_of::<T>();
    unsafe { core::ptr::write_bytes(slot.as_mut_ptr() as *mut u8, 0xA5, n) };
    (slot, n)
}

fn still_prefilled<T>(slot: &core::mem::MaybeUninit<T>, n: usize) -> bool {
    (0..n).all(|i| unsafe { (slot.as_ptr() as *const u8).add(i).read() } == 0xA5)
}

impl<T, C> RawIntRes for IntResBase<'static, T, C>
where
    Self: IntRes,
    T: core::ops::DerefMut<Target = c_void>,
    C: cglue::trait_group::ContextBounds + 'static,
{
    fn ir_io_rawslot(&mut self, code: i32, non_os: bool) -> Result<u64, (bool, i32)> {
        use cglue::trait_group::{GetContainer, GetVtblBase};
        let f = self.get_vtbl_base().ir_io();
        let (mut slot, n) = prefilled::<u64>();
        let rc = unsafe { f(self.ccont_mut(), code, non_os, &mut slot) };
        if rc == 0 {
            Ok(unsafe { slot.assume_init() })
        } else {
            Err((still_prefilled(&slot, n), if non_os { 1 } else { rc }))
        }
    }
    fn ir_vec_rawslot(&mut self, code: i32, n: u32) -> Result<CVec<u64>, (bool, i32)> {
        use cglue::trait_group::{GetContainer, GetVtblBase};
        let f = self.get_vtbl_base().ir_vec();
        let (mut slot, sz) = prefilled::<CVec<u64>>();
        let rc = unsafe { f(self.ccont_mut(), code, n, &mut slot) };
        if rc == 0 {
            Ok(unsafe { slot.assume_init() })
        } else {
            Err((still_prefilled(&slot, sz), 1))
        }
    }
}

pub const INTRES_SINGLE: [Meth; 12] = [m("ir_io"), m("ir_io_unit"), m("ir_unit_err"), m("ir_fmt"), m("ir_my"), m("ir_vec"), m("ir_plain"), m("ir_alias"), m("ir_one"), m("ir_one_unit"),
    Meth { name: "ir_io_rawslot", logged_as: "ir_io" }, Meth { name: "ir_vec_rawslot", logged_as: "ir_vec" }];

pub fn call_intres_single<O: RawIntRes + ?Sized>(rv: &mut Recv<O>, mi: usize, a: &mut A) -> Ret {
    match mi {
        10 => {
            let (code, non_os) = (a.i32(0), a.raw(1) == 3);
            match need_mut!(rv).ir_io_rawslot(code, non_os) {
                Ok(v) => Ret::Ok_(Box::new(Ret::U(v))),
                Err((untouched, rc)) => Ret::Err_(Box::new(Ret::Multi(vec![Ret::B(untouched), Ret::I(rc as i64)]))),
            }
        }
        11 => match need_mut!(rv).ir_vec_rawslot(a.i32(0), a.raw(1).rem_euclid(6) as u32) {
            Ok(v) => Ret::Ok_(Box::new(Ret::V64(v.iter().copied().collect()))),
            Err((untouched, rc)) => Ret::Err_(Box::new(Ret::Multi(vec![Ret::B(untouched), Ret::I(rc as i64)]))),
        },
        _ => call_intres(rv, mi, a),
    }
}

pub fn call_intres<O: IntRes + ?Sized>(rv: &mut Recv<O>, mi: usize, a: &mut A) -> Ret {
    match mi {
        0 => {
            let (code, non_os) = (a.i32(0), a.raw(1) == 3);
            match need_mut!(rv).ir_io(code, non_os) {
                Ok(v) => Ret::Ok_(Box::new(Ret::U(v))),
                Err(e) => io_ret(code, non_os, e),
            }
        }
        1 => {
            let code = a.i32(0);
            match need_mut!(rv).ir_io_unit(code) {
                Ok(()) => Ret::Ok_(Box::new(Ret::Unit)),
                Err(e) => io_ret(code, false, e),
            }
        }
        2 => match need_mut!(rv).ir_unit_err(a.flag(0)) {
            Ok(v) => Ret::Ok_(Box::new(Ret::U(v as u64))),
            Err(()) => Ret::Err_(Box::new(Ret::Unit)),
        },
        3 => match rv.r().ir_fmt(a.flag(0)) {
            Ok(()) => Ret::Ok_(Box::new(Ret::Unit)),
            Err(_) => Ret::Err_(Box::new(Ret::Unit)),
        },
        4 => match need_mut!(rv).ir_my(a.i32(0)) {
            Ok(p) => Ret::Ok_(Box::new(Ret::P(p))),
            Err(e) => Ret::Err_(Box::new(Ret::I(e.0 as i64))),
        },
        5 => match need_mut!(rv).ir_vec(a.i32(0), a.raw(1).rem_euclid(6) as u32) {
            Ok(v) => Ret::Ok_(Box::new(Ret::V64(v.iter().copied().collect()))),
            Err(e) => Ret::Err_(Box::new(Ret::I(e.0 as i64))),
        },
        6 => match need_mut!(rv).ir_plain(a.i32(0)) {
            Ok(v) => Ret::Ok_(Box::new(Ret::U(v))),
            Err(e) => Ret::Err_(Box::new(Ret::I(e as i64))),
        },
        8 => match rv.r().ir_one(a.i32(0)) {
            Ok(v) => Ret::Ok_(Box::new(Ret::U(v))),
            Err(e) => Ret::Err_(Box::new(Ret::I(if e.0 == 0 { 0x7777 } else { e.0 } as i64))),
        },
        9 => match need_mut!(rv).ir_one_unit(a.i32(0)) {
            Ok(()) => Ret::Ok_(Box::new(Ret::Unit)),
            Err(e) => Ret::Err_(Box::new(Ret::I(if e.0 == 0 { 0x7777 } else { e.0 } as i64))),
        },
        7 => match rv.r().ir_alias(a.i32(0)) {
            Ok(v) => Ret::Ok_(Box::new(Ret::U(v))),
            Err(e) => {
                // an integer-coded error keeps what its coding keeps: the direct call applies the
                // same (documented, lossy) coding that the crossing applies
                let e = if crate::world::LAST_SIDE.load(std::sync::atomic::Ordering::SeqCst) == crate::world::TWIN {
                    <TwoErr as cglue::result::IntError>::from_int_err(cglue::result::IntError::into_int_err(e))
                } else {
                    e
                };
                Ret::Err_(Box::new(Ret::Multi(vec![Ret::I(e.code as i64), Ret::I(e.detail as i64)])))
            }
        },
        _ => Ret::NoSuchMethod,
    }
}

pub const INTRESMIXED: [Meth; 4] = [m("irm_marked"), m("irm_plain"), m("irm_marked_unit"), m("irm_plain_pair")];

pub fn call_intresmixed<O: IntResMixed + ?Sized>(rv: &mut Recv<O>, mi: usize, a: &mut A) -> Ret {
    let o = rv.r();
    match mi {
        0 => {
            let code = a.i32(0);
            match o.irm_marked(code) {
                Ok(v) => Ret::Ok_(Box::new(Ret::U(v))),
                Err(e) => io_ret(code, false, e),
            }
        }
        1 => {
            // not integer-coded: the error value itself crosses the boundary and must be identical
            match o.irm_plain(a.i32(0), a.raw(1) == 3) {
                Ok(v) => Ret::Ok_(Box::new(Ret::U(v))),
                Err(e) => Ret::Err_(Box::new(Ret::Multi(vec![Ret::I(e.raw_os_error().map(|x| x as i64).unwrap_or(i64::MIN)), Ret::Str(format!("{:?}", e.kind()))]))),
            }
        }
        2 => match o.irm_marked_unit(a.flag(0)) {
            Ok(()) => Ret::Ok_(Box::new(Ret::Unit)),
            Err(()) => Ret::Err_(Box::new(Ret::Unit)),
        },
        3 => match o.irm_plain_pair(a.i32(0)) {
            Ok(p) => Ret::Ok_(Box::new(Ret::P(p))),
            Err(e) => Ret::Err_(Box::new(Ret::I(e.0 as i64))),
        },
        _ => Ret::NoSuchMethod,
    }
}

pub const INTRESALIAS: [Meth; 3] = [m("ira_io"), m("ira_plain"), m("ira_other")];

pub fn call_intresalias<O: IntResAlias + ?Sized>(rv: &mut Recv<O>, mi: usize, a: &mut A) -> Ret {
    let o = rv.r();
    match mi {
        0 => {
            let code = a.i32(0);
            match o.ira_io(code) {
                Ok(v) => Ret::Ok_(Box::new(Ret::U(v))),
                Err(e) => io_ret(code, false, e),
            }
        }
        // (a plain `Result` in a trait whose attribute names an alias crosses the vtable as the
        // Rust enum it is - rustc warns that it is not FFI-safe - so it is no part of what a
        // separately compiled module may be handed: C05 runs leave it out)
        2 if crate::plugin::plugin_path().is_some() => Ret::NoSuchMethod,
        2 => match o.ira_other(a.i32(0)) {
            Ok(v) => Ret::Ok_(Box::new(Ret::U(v))),
            Err(e) => Ret::Err_(Box::new(Ret::Multi(vec![Ret::U(e.code as u32 as u64), Ret::U(e.detail as u32 as u64)]))),
        },
        1 => match o.ira_plain(a.i32(0)) {
            Ok(v) => Ret::Ok_(Box::new(Ret::U(v))),
            Err(e) => Ret::Err_(Box::new(Ret::U(e as u64))),
        },
        _ => Ret::NoSuchMethod,
    }
}

// Consume (non-consuming part), Gen ---------------------------------------------------------------

pub const CONSUME: [Meth; 1] = [m("k_peek")];
pub fn call_consume<O: Consume + ?Sized>(rv: &mut Recv<O>, mi: usize, _a: &mut A) -> Ret {
    let o = rv.r();
    match mi {
        0 => Ret::U(o.k_peek()),
        _ => Ret::NoSuchMethod,
    }
}
pub const CONSUME_BYVAL: [Meth; 2] = [m("k_into"), m("k_with")];
pub fn consume_consume<O: Consume>(o: O, mi: usize, a: &mut A) -> Ret {
    match mi {
        0 => Ret::U(o.k_into()),
        _ => Ret::U(o.k_with(a.u(0))),
    }
}

pub const GENUSIZE: [Meth; 2] = [m("g_set<usize>"), m("g_get<usize>")];
pub fn call_genusize<O: Gen<usize> + ?Sized>(rv: &mut Recv<O>, mi: usize, a: &mut A) -> Ret {
    match mi {
        0 => Ret::U(need_mut!(rv).g_set(a.u(0) as usize) as u64),
        1 => Ret::U(rv.r().g_get()),
        _ => Ret::NoSuchMethod,
    }
}
pub const GENU64: [Meth; 2] = [m("g_set<u64>"), m("g_get<u64>")];
pub fn call_genu64<O: Gen<u64> + ?Sized>(rv: &mut Recv<O>, mi: usize, a: &mut A) -> Ret {
    match mi {
        0 => Ret::U(need_mut!(rv).g_set(a.u(0))),
        1 => Ret::U(rv.r().g_get()),
        _ => Ret::NoSuchMethod,
    }
}

pub const ATTRS: [Meth; 8] = [m("at_num"), m("at_num_mut"), m("at_first"), m("at_last"), m("at_c"), m("last"), Meth { name: "at_vonly", logged_as: "at_first" }, Meth { name: "at_generic", logged_as: "at_first" }];
pub fn call_attrs<O: Attrs + ?Sized>(rv: &mut Recv<O>, mi: usize, a: &mut A) -> Ret {
    match mi {
        0 => Ret::U(rv.r().at_num().into()),
        1 => Ret::U(need_mut!(rv).at_num_mut(a.u(0) as u32).into()),
        2 => Ret::U(rv.r().at_first(a.u(0))),
        3 => Ret::U(need_mut!(rv).at_last(a.u(0))),
        4 => Ret::U(rv.r().at_c() as u64),
        5 => Ret::U(need_mut!(rv).last(a.u(0))),
        6 => Ret::U(rv.r().at_vonly(a.u(0))),
        7 => Ret::U(rv.r().at_generic(a.u(0))),
        _ => Ret::NoSuchMethod,
    }
}
pub const LEND: [Meth; 2] = [m("lend"), m("lend_mut")];
pub fn call_lend<O: Lend<'static> + ?Sized + 'static>(rv: &mut Recv<O>, mi: usize, a: &mut A) -> Ret {
    let o = need_mut!(rv);
    // the trait borrows its receiver for the trait's own lifetime; the view is used and dropped
    // inside this call, so the borrow is over when it returns
    let o: &'static mut O = unsafe { &mut *(o as *mut O) };
    if mi == 1 {
        let c = o.lend_mut();
        return Ret::U(c.b_add(a.u(0)));
    }
    let view = o.lend(a.u(0));
    let r = call_readonly(&mut Recv::Ref(&view), a.raw(1).rem_euclid(READONLY.len() as i64) as usize, &mut sub(a));
    drop(view);
    r
}
pub const DUP: [Meth; 3] = [m("dup"), m("split"), m("dval")];
pub fn call_dup<O: Dup + IntoDyn<KDup> + 'static>(rv: &mut Recv<O>, mi: usize, a: &mut A) -> Ret {
    match mi {
        // (a `-> Self` entry returns the container by value through a function pointer whose
        // return type names the opaque form; Miri insists on nominally identical types for
        // by-value returns and stops the whole run, so these two calls are left out under Miri)
        0 | 1 if cfg!(miri) => Ret::NoSuchMethod,
        0 => Ret::Obj(rv.r().dup().into_dyn()),
        1 => Ret::Obj(need_mut!(rv).split(a.u(0)).into_dyn()),
        2 => Ret::U(rv.r().dval()),
        _ => Ret::NoSuchMethod,
    }
}
pub const LIFE: [Meth; 3] = [m("l_get"), m("l_eq"), m("l_set")];
pub fn call_life<'x, O: Life<'x, u64> + ?Sized>(rv: &mut Recv<O>, mi: usize, a: &mut A) -> Ret {
    match mi {
        0 => {
            let r = rv.r().l_get();
            a.sent.push((r as *const u64 as usize, 1));
            Ret::U(*r)
        }
        1 => {
            let v = a.u(0);
            a.sent.push((&v as *const u64 as usize, 1));
            Ret::B(rv.r().l_eq(&v))
        }
        2 => Ret::U(need_mut!(rv).l_set(a.u(0))),
        _ => Ret::NoSuchMethod,
    }
}

pub const FMTDEBUG: [Meth; 1] = [Meth { name: "Debug::fmt", logged_as: "fmt_debug" }];
pub fn call_debug<O: core::fmt::Debug + ?Sized>(rv: &mut Recv<O>, mi: usize, _a: &mut A) -> Ret {
    use std::fmt::Write;
    match mi {
        0 => {
            let mut out = String::new();
            match write!(&mut out, "{:?}", rv.r()) {
                Ok(()) => Ret::Ok_(Box::new(Ret::Str(out))),
                Err(_) => Ret::Err_(Box::new(Ret::Str(out))),
            }
        }
        _ => Ret::NoSuchMethod,
    }
}
pub const FMTDISPLAY: [Meth; 1] = [Meth { name: "Display::fmt", logged_as: "fmt_display" }];
pub fn call_display<O: core::fmt::Display + ?Sized>(rv: &mut Recv<O>, mi: usize, _a: &mut A) -> Ret {
    use std::fmt::Write;
    match mi {
        0 => {
            let mut out = String::new();
            match write!(&mut out, "{}", rv.r()) {
                Ok(()) => Ret::Ok_(Box::new(Ret::Str(out))),
                Err(_) => Ret::Err_(Box::new(Ret::Str(out))),
            }
        }
        _ => Ret::NoSuchMethod,
    }
}
pub const ASREF: [Meth; 1] = [Meth { name: "AsRef::as_ref", logged_as: "as_ref" }];
pub fn call_asref<O: AsRef<u64> + ?Sized>(rv: &mut Recv<O>, mi: usize, a: &mut A) -> Ret {
    match mi {
        0 => {
            let r: &u64 = rv.r().as_ref();
            a.sent.push((r as *const u64 as usize, 1));
            Ret::U(*r)
        }
        _ => Ret::NoSuchMethod,
    }
}

pub const IOPORT: [Meth; 1] = [m("io_read")];
pub fn call_ioport<O: IOPort + ?Sized>(rv: &mut Recv<O>, mi: usize, a: &mut A) -> Ret {
    match mi {
        0 => Ret::U(rv.r().io_read(a.u(0) as u32)),
        _ => Ret::NoSuchMethod,
    }
}
pub const INSPECT: [Meth; 1] = [m("inspect")];
pub fn call_inspect<O: Inspect + ?Sized>(rv: &mut Recv<O>, mi: usize, _a: &mut A) -> Ret {
    match mi {
        0 => Ret::U(rv.r().inspect()),
        _ => Ret::NoSuchMethod,
    }
}
pub const KVSTORE: [Meth; 3] = [m("kv_put"), m("kv_cell"), m("kv_len")];
pub fn call_kvstore<O: KVStore + ?Sized>(rv: &mut Recv<O>, mi: usize, a: &mut A) -> Ret {
    match mi {
        0 => Ret::U(need_mut!(rv).kv_put(a.u(0), a.u(1))),
        1 => Ret::U(need_mut!(rv).kv_cell(a.u(0), a.u(1) ^ 0x55, a.u(2) ^ 0xAA00)),
        2 => Ret::U(rv.r().kv_len(a.u(0))),
        _ => Ret::NoSuchMethod,
    }
}
pub const KEYDUMPER: [Meth; 1] = [m("key_dump")];
pub fn call_keydumper<O: KeyDumper + ?Sized>(rv: &mut Recv<O>, mi: usize, a: &mut A) -> Ret {
    match mi {
        0 => Ret::U(rv.r().key_dump(a.u(0) as u32)),
        _ => Ret::NoSuchMethod,
    }
}

// Children -----------------------------------------------------------------------------------

use crate::dynobj::{IntoDyn, KBasic, KDup, KGrpA};

pub const CHILDREN: [Meth; 10] = [m("c_owned"), m("c_owned_mut"), m("c_ref"), m("c_mut"), m("c_group"), m("c_group_ref"), m("c_group_mut"), m("c_count"), m("c_nest"), m("c_owned_opt")];

fn opt_args(a: &mut A) -> (Option<bool>, Option<char>, Option<u32>) {
    let flag = match a.u(1) % 3 { 0 => None, 1 => Some(false), _ => Some(true) };
    let ch = match a.u(2) % 4 { 0 => None, 1 => Some('\0'), 2 => Some('a'), _ => Some(char::MAX) };
    let n = match a.u(3) % 3 { 0 => None, 1 => Some(0), _ => Some(a.u(3) as u32) };
    (flag, ch, n)
}

/// A context value of the object's context type that belongs to nobody else (its own world, so
/// whatever becomes of it is invisible to the run's books).
pub trait FreshCtx: Sized {
    fn fresh() -> Self;
}
impl FreshCtx for cglue::trait_group::NoContext {
    fn fresh() -> Self {
        Default::default()
    }
}
impl FreshCtx for CArc<crate::world::CtxPayload> {
    fn fresh() -> Self {
        simcore::alloc::untracked(|| CArc::from(crate::world::CtxPayload { world: crate::world::World::new(), lib: None }))
    }
}
impl FreshCtx for CArc<c_void> {
    fn fresh() -> Self {
        cglue::trait_group::Opaquable::into_opaque(<CArc<crate::world::CtxPayload>>::fresh())
    }
}
impl FreshCtx for crate::world::PlainCtx {
    fn fresh() -> Self {
        simcore::alloc::untracked(|| crate::world::PlainCtx::new(&crate::world::World::new()))
    }
}

/// What safe code may do with the `&mut` it gets for a mutably borrowed wrapped child: move the
/// wrapper out (`mem::replace`) and drop it. The wrapper owns a context clone of its own, so this
/// releases that clone and nothing else. The replacement wraps the same child instance with a
/// context of its own.
pub trait ReplaceMutChild: Children {
    fn c_mut_replace(&mut self) -> Option<u64>;
}

impl ReplaceMutChild for Solo {
    fn c_mut_replace(&mut self) -> Option<u64> {
        if crate::plugin::plugin_path().is_some() {
            return None;
        }
        Some(self.c_mut().b_get())
    }
}

impl<T, C> ReplaceMutChild for ChildrenBase<'static, T, C>
where
    Self: Children<MutChild = BasicBase<'static, &'static mut c_void, C>>,
    T: core::ops::Deref<Target = c_void>,
    C: FreshCtx + cglue::trait_group::ContextBounds + 'static,
{
    fn c_mut_replace(&mut self) -> Option<u64> {
        use cglue::trait_group::{CGlueObjMut, GetContainer};
        // (a child made inside a separately compiled module has that module's type, not ours)
        if crate::plugin::plugin_path().is_some() {
            return None;
        }
        let slot = self.c_mut();
        let inst = slot.ccont_mut().cobj_mut().0 as *mut c_void as *mut Solo;
        let r: BasicBase<'static, &'static mut Solo, C> = From::from((unsafe { &mut *inst }, C::fresh()));
        let old = core::mem::replace(slot, cglue::trait_group::Opaquable::into_opaque(r));
        drop(old);
        Some(slot.b_get())
    }
}

pub const CHILDREN_SINGLE: [Meth; 11] = [m("c_owned"), m("c_owned_mut"), m("c_ref"), m("c_mut"), m("c_group"), m("c_group_ref"), m("c_group_mut"), m("c_count"), m("c_nest"), m("c_owned_opt"), Meth { name: "c_mut_replace", logged_as: "c_mut" }];

pub fn call_children_single<O>(rv: &mut Recv<O>, mi: usize, a: &mut A) -> Ret
where
    O: ReplaceMutChild + ?Sized,
    O::Child: IntoDyn<KBasic>,
    O::RefChild: ReadOnly,
    O::MutChild: Basic,
    O::GChild: IntoDyn<KGrpA>,
    O::GRefChild: ReadOnly,
    O::GMutChild: Basic,
{
    match mi {
        10 => match need_mut!(rv).c_mut_replace() {
            Some(v) => Ret::U(v),
            None => Ret::NoSuchMethod,
        },
        _ => call_children(rv, mi, a),
    }
}

fn sub<'a>(a: &A<'a>) -> A<'a> {
    A::new(if a.a.len() > 2 { &a.a[2..] } else { &[] })
}

pub fn call_children<O>(rv: &mut Recv<O>, mi: usize, a: &mut A) -> Ret
where
    O: Children + ?Sized,
    O::Child: IntoDyn<KBasic>,
    O::RefChild: ReadOnly,
    O::MutChild: Basic,
    O::GChild: IntoDyn<KGrpA>,
    O::GRefChild: ReadOnly,
    O::GMutChild: Basic,
{
    match mi {
        0 => Ret::Obj(rv.r().c_owned(a.u(0)).into_dyn()),
        9 => {
            let (flag, ch, n) = opt_args(a);
            Ret::Obj(rv.r().c_owned_opt(a.u(0), flag, ch, n).into_dyn())
        }
        1 => Ret::Obj(need_mut!(rv).c_owned_mut(a.u(0)).into_dyn()),
        2 => {
            // borrowed child: used inside the step, twice (the second wrapper reuses the slot)
            let o = rv.r();
            let r1 = {
                let c = o.c_ref();
                call_readonly(&mut Recv::Ref(c), a.raw(1).rem_euclid(READONLY.len() as i64) as usize, &mut sub(a))
            };
            let c2 = o.c_ref();
            let r2 = call_readonly(&mut Recv::Ref(c2), 0, &mut sub(a));
            Ret::Multi(vec![r1, r2])
        }
        3 => {
            let o = need_mut!(rv);
            let c = o.c_mut();
            let r1 = call_basic(&mut Recv::Mut(c), a.raw(1).rem_euclid(BASIC.len() as i64) as usize, &mut sub(a));
            Ret::Multi(vec![r1])
        }
        4 => Ret::Obj(rv.r().c_group(a.u(0)).into_dyn()),
        5 => {
            let c = rv.r().c_group_ref();
            call_readonly(&mut Recv::Ref(c), a.raw(1).rem_euclid(READONLY.len() as i64) as usize, &mut sub(a))
        }
        6 => {
            let o = need_mut!(rv);
            let c = o.c_group_mut();
            call_basic(&mut Recv::Mut(c), a.raw(1).rem_euclid(BASIC.len() as i64) as usize, &mut sub(a))
        }
        8 => {
            // an owned grandchild derived from a borrowed child: its context is cloned from the
            // borrowed wrapper's; used and dropped inside the step
            let c = rv.r().c_nest();
            let g = c.sp_kid(a.u(1));
            Ret::U(g.r_get())
        }
        7 => Ret::U(rv.r().c_count()),
        _ => Ret::NoSuchMethod,
    }
}

pub const CHILDRENMORE: [Meth; 3] = [m("m_res"), m("m_peek"), m("m_res_plain")];
pub const CHILDRENMORE_SINGLE: [Meth; 4] = [m("m_res"), m("m_peek"), m("m_res_plain"), Meth { name: "m_res_rawslot", logged_as: "m_res" }];


impl<C> RawSlotCall for ChildrenMoreBase<'static, CBox<'static, c_void>, C>
where
    C: cglue::trait_group::ContextBounds,
    Self: ChildrenMore<MChild = BasicBase<'static, CBox<'static, c_void>, C>>,
{
    fn m_res_rawslot(&self, fail: bool) -> Result<Self::MChild, bool> {
        use cglue::trait_group::{GetContainer, GetVtblBase};
        // (a foreign caller knows no lifetimes: the entry's `'cglue_a` borrow is the call's)
        let this: &'static Self = unsafe { &*(self as *const Self) };
        let f = this.get_vtbl_base().m_res();
        let mut slot = core::mem::MaybeUninit::<BasicBase<'static, CBox<'static, c_void>, C>>::uninit();
        let n = core::mem::size_of_val(&slot);
        let p = slot.as_mut_ptr() as *mut u8;
        unsafe { core::ptr::write_bytes(p, 0xA5, n) };
        let code = unsafe { f(this.ccont_ref(), fail, &mut slot) };
        if code == 0 {
            Ok(unsafe { slot.assume_init() })
        } else {
            Err((0..n).all(|i| unsafe { p.add(i).read() } == 0xA5))
        }
    }
}

pub fn call_childrenmore_single<O>(rv: &mut Recv<O>, mi: usize, a: &mut A) -> Ret
where
    O: RawSlotCall + ?Sized,
    O::MChild: IntoDyn<KBasic>,
{
    match mi {
        3 => match rv.r().m_res_rawslot(a.flag(0)) {
            Ok(c) => Ret::Ok_(Box::new(Ret::Obj(c.into_dyn()))),
            Err(untouched) => Ret::Err_(Box::new(Ret::B(untouched))),
        },
        _ => call_childrenmore(rv, mi, a),
    }
}

pub fn call_childrenmore<O>(rv: &mut Recv<O>, mi: usize, a: &mut A) -> Ret
where
    O: ChildrenMore + ?Sized,
    O::MChild: IntoDyn<KBasic>,
{
    match mi {
        0 => match rv.r().m_res(a.flag(0)) {
            Ok(c) => Ret::Ok_(Box::new(Ret::Obj(c.into_dyn()))),
            Err(()) => Ret::Err_(Box::new(Ret::Unit)),
        },
        1 => Ret::U(rv.r().m_peek()),
        2 => match rv.r().m_res_plain(a.flag(0)) {
            Ok(c) => Ret::Ok_(Box::new(Ret::Obj(c.into_dyn()))),
            Err(()) => Ret::Err_(Box::new(Ret::Unit)),
        },
        _ => Ret::NoSuchMethod,
    }
}

pub const CHILDRENMORE_BYVAL: [Meth; 3] = [m("m_consume"), m("m_try"), m("m_try_plain")];
pub fn consume_childrenmore<O>(o: O, mi: usize, a: &mut A) -> Ret
where
    O: ChildrenMore,
    O::MChild: IntoDyn<KBasic>,
{
    match mi {
        0 => Ret::Obj(o.m_consume(a.u(0)).into_dyn()),
        1 => match o.m_try(a.flag(0)) {
            Ok(c) => Ret::Ok_(Box::new(Ret::Obj(c.into_dyn()))),
            Err(()) => Ret::Err_(Box::new(Ret::Unit)),
        },
        _ => match o.m_try_plain(a.flag(0)) {
            Ok(c) => Ret::Ok_(Box::new(Ret::Obj(c.into_dyn()))),
            Err(()) => Ret::Err_(Box::new(Ret::Unit)),
        },
    }
}

/// Variants for receivers whose associated types are opaque (`as_ref!`, `as_mut!`, `into!` return
/// `impl Trait`): only the bounds declared on the trait are available, so returned children are
/// used through them and dropped inside the step.
pub fn call_children_opaque<O: Children + ?Sized>(rv: &mut Recv<O>, mi: usize, a: &mut A) -> Ret {
    match mi {
        0 => {
            let c = rv.r().c_owned(a.u(0));
            Ret::U(c.b_get())
        }
        9 => {
            let (flag, ch, n) = opt_args(a);
            let c = rv.r().c_owned_opt(a.u(0), flag, ch, n);
            Ret::U(c.b_get())
        }
        1 => {
            let mut c = need_mut!(rv).c_owned_mut(a.u(0));
            Ret::U(c.b_add(3))
        }
        2 => Ret::U(rv.r().c_ref().r_get()),
        3 => Ret::U(need_mut!(rv).c_mut().b_add(a.u(1))),
        4 => {
            let c = rv.r().c_group(a.u(0));
            Ret::U(c.b_get())
        }
        5 => Ret::U(rv.r().c_group_ref().r_touch(a.u(1))),
        6 => Ret::U(need_mut!(rv).c_group_mut().b_add(a.u(1))),
        8 => {
            // an owned grandchild derived from a borrowed child: its context is cloned from the
            // borrowed wrapper's; used and dropped inside the step
            let c = rv.r().c_nest();
            let g = c.sp_kid(a.u(1));
            Ret::U(g.r_get())
        }
        7 => Ret::U(rv.r().c_count()),
        _ => Ret::NoSuchMethod,
    }
}

pub fn call_childrenmore_opaque<O: ChildrenMore + ?Sized>(rv: &mut Recv<O>, mi: usize, a: &mut A) -> Ret {
    match mi {
        0 => match rv.r().m_res(a.flag(0)) {
            Ok(c) => Ret::Ok_(Box::new(Ret::U(c.b_get()))),
            Err(()) => Ret::Err_(Box::new(Ret::Unit)),
        },
        1 => Ret::U(rv.r().m_peek()),
        2 => match rv.r().m_res_plain(a.flag(0)) {
            Ok(c) => Ret::Ok_(Box::new(Ret::U(c.b_get()))),
            Err(()) => Ret::Err_(Box::new(Ret::Unit)),
        },
        _ => Ret::NoSuchMethod,
    }
}
