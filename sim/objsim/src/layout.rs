//! C04(b): layout facts read from raw words of live objects (no simulation in themselves; they
//! ride on every object the simulator creates).

#[derive(Clone, Debug, PartialEq, Eq)]
pub struct Facts {
    /// all mandatory vtable words are non-null
    pub mandatory_present: bool,
    /// which optional vtable words are non-null, translated to the harness's bit order
    pub optional_present: u32,
    pub size: usize,
    pub align: usize,
}

/// A group object read as raw words: mandatory vtable pointers (name order), optional vtable
/// pointers (name order; null = absent), then the container. `perm[i]` = harness bit of the i-th
/// optional trait in name order.
pub fn probe_group<G>(g: &G, n_mand: usize, perm: &[usize]) -> Facts {
    let p = g as *const G as *const usize;
    let mut mandatory_present = true;
    for i in 0..n_mand {
        if unsafe { *p.add(i) } == 0 {
            mandatory_present = false;
        }
    }
    let mut optional_present = 0u32;
    for (i, bit) in perm.iter().enumerate() {
        if unsafe { *p.add(n_mand + i) } != 0 {
            optional_present |= 1 << bit;
        }
    }
    Facts { mandatory_present, optional_present, size: std::mem::size_of::<G>(), align: std::mem::align_of::<G>() }
}
