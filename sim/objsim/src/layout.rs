//! C04(b): layout facts read from raw words of live objects (no simulation in themselves; they
//! ride on every object the simulator creates).

#[derive(Clone, Debug, PartialEq, Eq)]
pub struct Facts {
    /// all mandatory vtable words are non-null
    pub mandatory_present: bool,
    /// which optional vtable words are non-null, translated to the harness's bit order
    pub optional_present: u32,
    pub size: usize,
    pub align: usize,
}

/// A group object read as raw words: mandatory vtable pointers (name order), optional vtable
/// pointers (name order; null = absent), then the container. `perm[i]` = harness bit of the i-th
/// optional trait in name order.
pub fn probe_group<G>(g: &G, n_mand: usize, perm: &[usize]) -> Facts {
    let p = g as *const G as *const usize;
    let mut mandatory_present = true;
    for i in 0..n_mand {
        if unsafe { *p.add(i) } == 0 {
            mandatory_present = false;
        }
    }
    let mut optional_present = 0u32;
    for (i, bit) in perm.iter().enumerate() {
        if unsafe { *p.add(n_mand + i) } != 0 {
            optional_present |= 1 << bit;
        }
    }
    Facts { mandatory_present, optional_present, size: std::mem::size_of::<G>(), align: std::mem::align_of::<G>() }
}

/// C04: "the opaque and the concrete form of any object have identical size, alignment and bit
/// pattern" — read directly: a concrete object is built (its own world, so the run's books do not
/// see it), its words are noted, it is made opaque and the words are read again.
pub fn opaque_identity(seed: u64) -> Result<(), simcore::Violation> {
    use crate::corpus::*;
    use crate::dispatch::FreshCtx;
    use crate::world::{Core, CtxPayload, PlainCtx, World, ERASED};
    use cglue::prelude::v1::*;
    use cglue::trait_group::{c_void, NoContext, Opaquable};
    fn words<T>(t: &T, limit: usize) -> Vec<usize> {
        let n = (std::mem::size_of::<T>() / std::mem::size_of::<usize>()).min(limit);
        (0..n).map(|i| unsafe { (t as *const T as *const usize).add(i).read() }).collect()
    }
    let w = World::new();
    macro_rules! probe {
        ($what:expr, $ty:ty, $from:expr) => {
            probe!($what, $ty, $from, usize::MAX)
        };
        // `$n`: how many leading words hold values (vtable pointers, instance, context); what
        // follows is temporary storage that starts out uninitialised and says nothing
        ($what:expr, $ty:ty, $from:expr, $n:expr) => {{
            let c: $ty = From::from($from);
            let (s1, a1, w1) = (std::mem::size_of_val(&c), std::mem::align_of_val(&c), words(&c, $n));
            let o = Opaquable::into_opaque(c);
            let (s2, a2, w2) = (std::mem::size_of_val(&o), std::mem::align_of_val(&o), words(&o, $n));
            if s1 != s2 || a1 != a2 {
                return Err(simcore::Violation::new("layout.opaque_differs", $what, format!("{}: the concrete form has size {} align {}, the opaque form size {} align {}", $what, s1, a1, s2, a2)));
            }
            if w1 != w2 {
                let i = w1.iter().zip(w2.iter()).position(|(x, y)| x != y).unwrap_or(0);
                return Err(simcore::Violation::new("layout.opaque_differs", $what, format!("{}: word {} of the object changes when it is made opaque ({:#x} -> {:#x})", $what, i, w1[i], w2[i])));
            }
            drop(o);
        }};
    }
    let solo = |k: u64| Solo::new(Core::new(&w, ERASED, seed ^ k, false));
    probe!("Basic/Box/none", BasicBase<'static, CBox<'static, Solo>, NoContext>, solo(1));
    probe!("Basic/Box/arc", BasicBase<'static, CBox<'static, Solo>, CArc<CtxPayload>>, (solo(2), <CArc<CtxPayload>>::fresh()));
    probe!("ReadOnly/ArcSome/plain", ReadOnlyBase<'static, CArcSome<Solo>, PlainCtx>, (CArcSome::from(solo(3)), PlainCtx::fresh()));
    probe!("Children/Box/arc_opaque", ChildrenBase<'static, CBox<'static, Solo>, CArc<c_void>>, (solo(4), <CArc<c_void>>::fresh()), 6);
    probe!("GrpA/Box/arc_opaque", GrpA<'static, CBox<'static, A5>, CArc<c_void>>, (A5::new(Core::new(&w, ERASED, seed ^ 5, false)), <CArc<c_void>>::fresh()));
    probe!("GrpC/Box/none", GrpC<'static, CBox<'static, C7>, NoContext>, C7::new(Core::new(&w, ERASED, seed ^ 6, false)));
    probe!("GrpR/ArcSome/arc", GrpR<'static, CArcSome<R1>, CArc<CtxPayload>>, (CArcSome::from(R1::new(Core::new(&w, ERASED, seed ^ 7, false))), <CArc<CtxPayload>>::fresh()));
    {
        let leaked: &'static mut Solo = Box::leak(Box::new(solo(8)));
        let p = leaked as *mut Solo;
        probe!("Basic/Mut/plain", BasicBase<'static, &'static mut Solo, PlainCtx>, (leaked, PlainCtx::fresh()));
        drop(unsafe { Box::from_raw(p) });
    }
    Ok(())
}
