//! The corpus: trait and group definitions the object simulator runs (DESIGN.md §2.8).
//! Every implementor wraps one `Core` and every method logs (instance id, method name, digest of
//! its arguments, addresses of slices it saw) before it does anything.

#![allow(clippy::all)]

use crate::world::Core;
use cglue::prelude::v1::*;
use cglue::*;
use std::pin::Pin;

pub fn fnv(b: &[u8]) -> u64 {
    simcore::rng::fnv(b)
}
fn d2(a: u64, b: u64) -> u64 {
    a.rotate_left(13) ^ b.wrapping_mul(0x100_0000_01b3)
}

// -------------------------------------------------------------------------------------------
// traits
// -------------------------------------------------------------------------------------------

/// Receivers and basic attributes: &self, &mut self, extern "C", default method, unsafe fn, pinned.
#[cglue_trait]
pub trait Basic {
    extern "C" fn b_get(&self) -> u64;
    fn b_add(&mut self, v: u64) -> u64;
    fn b_two(&mut self, a: u32, b: i64) -> i64;
    /// default method that calls another method of the trait
    fn b_default(&mut self, v: u64) -> u64 {
        self.b_add(v).wrapping_add(1)
    }
    unsafe fn b_unsafe(&self, v: u32) -> u32;
    fn b_pin(self: Pin<&Self>) -> u64;
    fn b_pin_mut(self: Pin<&mut Self>, v: u64) -> u64;
    extern "C" fn b_c_mut(&mut self, v: i32) -> i32;
    /// two arguments of the same type: swapping them must show
    fn b_sub(&mut self, x: u64, y: u64) -> u64;
    /// default method with a `where` clause, overridden by the implementors
    fn b_where(&mut self, v: u64) -> u64
    where
        Self: Sized,
    {
        self.b_add(v) ^ 1
    }
}

/// Only shared receivers: usable through by-reference and reference-counted containers.
#[cglue_trait]
pub trait ReadOnly: Send + Sync {
    fn r_get(&self) -> u64;
    fn r_touch(&self, v: u64) -> u64;
    fn r_str(&self) -> &str;
    fn r_slice(&self) -> &[u8];
    fn r_sum(&self, v: &[u64]) -> u64;
    fn r_opt(&self, v: Option<usize>) -> Option<u64>;
    fn r_cb(&self, n: u32, cb: OpaqueCallback<u64>) -> u32;
}

#[repr(C)]
#[derive(Clone, Copy, Debug, PartialEq, Eq)]
pub struct Pair {
    pub a: u64,
    pub b: i32,
    pub c: u8,
}

/// Automatically wrapped argument and return shapes.
#[cglue_trait]
pub trait Shapes {
    fn s_slice(&mut self, v: &[u8]) -> usize;
    fn s_slice_u64(&mut self, v: &[u64]) -> u64;
    fn s_slice_mut(&mut self, v: &mut [u8]) -> u8;
    fn s_str(&mut self, s: &str) -> u64;
    fn s_opt(&mut self, v: Option<usize>) -> Option<u64>;
    fn s_opt_ref(&self, v: Option<&u64>) -> u64;
    fn s_mixed(&mut self, r: Option<&u64>, o: Option<u64>) -> Option<u32>;
    fn s_res(&mut self, v: Result<u32, i32>) -> Result<u64, i32>;
    fn s_into(&mut self, v: impl Into<u64>) -> u64;
    fn s_struct(&mut self, p: Pair) -> Pair;
    fn s_cb(&mut self, n: u32, cb: OpaqueCallback<u64>) -> u32;
    fn s_iter(&mut self, take: u32, it: CIterator<u64>) -> u64;
    fn s_ret_str(&self) -> &str;
    fn s_ret_slice(&self) -> &[u8];
    fn s_ret_mut_slice(&mut self) -> &mut [u8];
    fn s_ret_opt_ref(&self, some: bool) -> Option<&u64>;
    fn s_str_to_str<'a>(&'a mut self, s: &str) -> &'a str;
    fn s_vec(&mut self, v: CVec<u64>) -> CVec<u64>;
    fn s_mut_ref(&mut self, out: &mut u64) -> bool;
    fn s_two_slices(&mut self, a: &[u8], b: &[u8]) -> i64;
    fn s_opt_then_slice(&mut self, o: Option<u64>, s: &[u64], t: &str) -> u64;
    fn s_two_mut(&mut self, a: &mut [u8], b: &mut u32) -> usize;
    /// an input and an output slice in one call (often two parts of one buffer)
    fn s_copy(&mut self, src: &[u8], dst: &mut [u8]) -> usize;
    /// two converted arguments of the same shape and type: each must arrive in its own position
    fn s_two_opts(&mut self, lo: Option<u64>, hi: Option<u64>) -> u64;
    fn s_two_into(&mut self, a: impl Into<u64>, b: impl Into<u64>) -> u64;
    /// no return value
    fn s_unit(&mut self, v: u64);
    fn s_opt_mut(&mut self, v: Option<&mut u64>) -> bool;
    fn s_ret_mut(&mut self) -> &mut u64;
    fn s_ret_opt_mut(&mut self, some: bool) -> Option<&mut u64>;
    /// options that need no tag (null-pointer-optimised payloads) and nested ones
    fn s_nz(&self, v: Option<core::num::NonZeroU32>) -> Option<core::num::NonZeroU32>;
    fn s_nested(&self, v: Option<Option<u64>>) -> Option<Option<u64>>;
    fn s_raw(&self, p: *const u64, q: *mut u64) -> *const u64;
    /// cglue's own C types as arguments and returns
    fn s_ctup(&self, t: CTup2<u64, i32>) -> CTup3<u8, u64, i32>;
    fn s_copt(&self, t: COption<u64>) -> CResult<u64, i32>;
    /// (borrowed C string in; an owned `ReprCString` is not returned: it carries no release
    /// function, so across modules with different allocators it cannot be released by its creator —
    /// a design limit outside C05's list of value kinds, see DESIGN.md §9.3)
    fn s_cstr(&self, s: ReprCStr<'_>) -> u64;
    fn s_slices(&self, v: &[CSliceRef<u8>]) -> usize;
    /// slices of a zero-sized element type: only address and length cross
    fn s_unit_slice(&mut self, v: &[Tick]) -> usize;
    fn s_ret_unit_slice(&self) -> &[Tick];
}

/// Zero-sized element type.
#[repr(C)]
#[derive(Clone, Copy, Debug, PartialEq, Eq)]
pub struct Tick;
pub static TICKS: [Tick; 4096] = [Tick; 4096];

#[derive(Debug, PartialEq, Eq, Clone, Copy)]
pub struct MyErr(pub i32);
impl IntError for MyErr {
    fn into_int_err(self) -> core::num::NonZeroI32 {
        core::num::NonZeroI32::new(if self.0 == 0 { 0x7777 } else { self.0 }).unwrap()
    }
    fn from_int_err(err: core::num::NonZeroI32) -> Self {
        MyErr(err.get())
    }
}

pub type AliasRes<T, E> = Result<T, E>;

/// Integer-coded results: callee failures are injected through the `code` / `fail` arguments.
#[cglue_trait]
#[int_result]
pub trait IntRes {
    fn ir_io(&mut self, code: i32, non_os: bool) -> Result<u64, std::io::Error>;
    fn ir_io_unit(&mut self, code: i32) -> Result<(), std::io::Error>;
    fn ir_unit_err(&mut self, fail: bool) -> Result<u32, ()>;
    fn ir_fmt(&self, fail: bool) -> Result<(), std::fmt::Error>;
    fn ir_my(&mut self, code: i32) -> Result<Pair, MyErr>;
    fn ir_vec(&mut self, code: i32, n: u32) -> Result<CVec<u64>, MyErr>;
    #[no_int_result]
    fn ir_plain(&mut self, code: i32) -> Result<u64, i32>;
    /// method-level marker naming an alias inside a trait-level marker: integer-coded like the
    /// rest (so the error's second field does not survive the crossing)
    #[int_result(AliasRes)]
    fn ir_alias(&self, code: i32) -> AliasRes<u64, TwoErr>;
    /// one-parameter alias (the error type is part of the alias)
    #[int_result(Res1)]
    fn ir_one(&self, code: i32) -> Res1<u64>;
    #[int_result(Res1)]
    fn ir_one_unit(&mut self, code: i32) -> Res1<()>;
}

pub type Res1<T> = Result<T, MyErr>;

#[cglue_trait]
#[int_result(AliasRes)]
pub trait IntResAlias {
    fn ira_io(&self, code: i32) -> AliasRes<u64, std::io::Error>;
    #[no_int_result]
    fn ira_plain(&self, code: i32) -> AliasRes<u64, u32>;
    /// spelled with the plain `Result`, not with the alias the attribute names: crosses as it is,
    /// so both fields of the error survive (its integer coding would keep only one)
    fn ira_other(&self, code: i32) -> Result<u64, TwoErr>;
}

/// An error whose integer coding is lossy.
#[repr(C)]
#[derive(Debug, PartialEq, Eq, Clone, Copy)]
pub struct TwoErr {
    pub code: i32,
    pub detail: i32,
}
impl IntError for TwoErr {
    fn into_int_err(self) -> core::num::NonZeroI32 {
        core::num::NonZeroI32::new(if self.code == 0 { 0x7777 } else { self.code }).unwrap()
    }
    fn from_int_err(err: core::num::NonZeroI32) -> Self {
        TwoErr { code: err.get(), detail: 0 }
    }
}

/// No trait-level attribute: one method opts into integer results, the next one must not inherit it.
#[cglue_trait]
pub trait IntResMixed {
    #[int_result]
    fn irm_marked(&self, code: i32) -> Result<u64, std::io::Error>;
    fn irm_plain(&self, code: i32, non_os: bool) -> Result<u64, std::io::Error>;
    #[int_result]
    fn irm_marked_unit(&self, fail: bool) -> Result<(), ()>;
    fn irm_plain_pair(&self, code: i32) -> Result<Pair, MyErr>;
}

/// A skipped method between two exported ones: the slots around it must stay right.
#[cglue_trait]
pub trait Attrs {
    /// associated type replaced by a fixed C type, converted by a closure on the way out
    #[wrap_with(u64)]
    #[return_wrap(|ret| Into::<u64>::into(ret))]
    type Num: Into<u64>;
    fn at_num(&self) -> Self::Num;
    fn at_num_mut(&mut self, salt: u32) -> Self::Num;
    fn at_first(&self, v: u64) -> u64;
    /// generic method with a default body: not exported (it has no slot), the opaque object runs
    /// this body; everything declared after it must still get its slot and its override
    fn at_generic<T: Into<u64>>(&self, v: T) -> u64 {
        self.at_first(v.into() ^ 0x99)
    }
    #[skip_func]
    fn at_skipped(&self) -> u64 {
        77
    }
    fn at_last(&mut self, v: u64) -> u64;
    /// exported to C only (it has its slot, in declaration order); Rust users of the opaque object
    /// get this body, which goes through `at_first`
    #[vtbl_only]
    fn at_vonly(&self, v: u64) -> u64 {
        self.at_first(v ^ 0x5a5a)
    }
    extern "C" fn at_c(&self) -> u32;
    /// same signature as `at_last`, and its name is a suffix of it
    fn last(&mut self, v: u64) -> u64;
}

/// Lifetime- and type-parameterised trait.
#[cglue_trait]
pub trait Life<'a, T: Eq + 'a> {
    fn l_get(&self) -> &T;
    fn l_eq(&self, v: &T) -> bool;
    fn l_set(&mut self, v: T) -> T;
}

/// By-value receivers.
#[cglue_trait]
pub trait Consume {
    fn k_peek(&self) -> u64;
    fn k_into(self) -> u64;
    fn k_with(self, v: u64) -> u64;
}

/// Generic trait.
#[cglue_trait]
pub trait Gen<T> {
    fn g_set(&mut self, v: T) -> T;
    fn g_get(&self) -> u64;
}

/// Wrapped associated types: owned / borrowed objects and groups.
#[cglue_trait]
pub trait Children {
    #[wrap_with_obj(Basic)]
    type Child: Basic + 'static;
    #[wrap_with_obj_ref(ReadOnly)]
    type RefChild: ReadOnly + 'static;
    #[wrap_with_obj_mut(Basic)]
    type MutChild: Basic + 'static;
    #[wrap_with_group(GrpA)]
    type GChild: Basic + Send + 'static;
    #[wrap_with_group_ref(GrpR)]
    type GRefChild: ReadOnly + 'static;
    #[wrap_with_group_mut(GrpA)]
    type GMutChild: Basic + Send + 'static;
    /// a borrowed child from which owned grandchildren can be derived
    #[wrap_with_obj_ref(Spawner)]
    type NestChild: Spawner + 'static;

    fn c_owned(&self, salt: u64) -> Self::Child;
    fn c_owned_mut(&mut self, salt: u64) -> Self::Child;
    /// optional arguments with niche-encoded payloads next to a wrapped by-value return (the
    /// entry is reached through the lifetime-cast getter)
    fn c_owned_opt(&self, salt: u64, flag: Option<bool>, ch: Option<char>, n: Option<u32>) -> Self::Child;
    fn c_ref(&self) -> &Self::RefChild;
    fn c_mut(&mut self) -> &mut Self::MutChild;
    fn c_group(&self, salt: u64) -> Self::GChild;
    fn c_group_ref(&self) -> &Self::GRefChild;
    fn c_group_mut(&mut self) -> &mut Self::GMutChild;
    fn c_count(&self) -> u64;
    fn c_nest(&self) -> &Self::NestChild;
}

/// Lifetime-parameterised trait whose receiver is borrowed for the trait's lifetime and whose
/// wrapped associated type borrows from it (the shape of `examples/plugin-api`).
#[cglue_trait]
pub trait Lend<'a> {
    #[wrap_with_obj(ReadOnly)]
    type Lent: ReadOnly + 'a;
    /// a mutably borrowed wrapped child bounded by the trait's lifetime (parked in the
    /// container's temporary storage, which starts out uninitialised)
    #[wrap_with_obj_mut(Basic)]
    type LentMut: Basic + 'a;
    fn lend(&'a mut self, salt: u64) -> Self::Lent;
    fn lend_mut(&'a mut self) -> &'a mut Self::LentMut;
}

/// What `Lend::lend` hands out: a view that forwards to the borrowed child.
pub struct LendView<'a> {
    pub s: &'a mut Solo,
}
impl<'a> ReadOnly for LendView<'a> {
    fn r_get(&self) -> u64 { self.s.r_get() }
    fn r_touch(&self, v: u64) -> u64 { self.s.r_touch(v) }
    fn r_str(&self) -> &str { self.s.r_str() }
    fn r_slice(&self) -> &[u8] { self.s.r_slice() }
    fn r_sum(&self, v: &[u64]) -> u64 { self.s.r_sum(v) }
    fn r_opt(&self, v: Option<usize>) -> Option<u64> { self.s.r_opt(v) }
    fn r_cb(&self, n: u32, cb: OpaqueCallback<u64>) -> u32 { self.s.r_cb(n, cb) }
}

/// Methods returning `Self`: the opaque object wraps the returned implementor into a new object
/// of its own kind (with its own clone of the context).
#[cglue_trait]
pub trait Dup {
    fn dup(&self) -> Self;
    fn split(&mut self, by: u64) -> Self;
    fn dval(&self) -> u64;
}

/// Only a shared receiver, returning an owned wrapped object: what a borrowed child needs in order
/// to have descendants of its own.
#[cglue_trait]
pub trait Spawner {
    #[wrap_with_obj(ReadOnly)]
    type Kid: ReadOnly + 'static;
    fn sp_kid(&self, salt: u64) -> Self::Kid;
}

/// Wrapped associated type returned from a by-value receiver, and inside an int result.
#[cglue_trait]
#[int_result]
pub trait ChildrenMore {
    #[wrap_with_obj(Basic)]
    type MChild: Basic + 'static;

    fn m_consume(self, salt: u64) -> Self::MChild;
    /// by-value call whose wrapped result sits inside a Result: on Err the context is not carried back
    fn m_try(self, fail: bool) -> Result<Self::MChild, ()>;
    #[no_int_result]
    fn m_try_plain(self, fail: bool) -> Result<Self::MChild, ()>;
    fn m_res(&self, fail: bool) -> Result<Self::MChild, ()>;
    #[no_int_result]
    fn m_res_plain(&self, fail: bool) -> Result<Self::MChild, ()>;
    fn m_peek(&self) -> u64;
}

/// The foreign caller's way of calling an integer-result method: straight through the vtable
/// entry (the documented getter), with a result slot the caller has filled beforehand. Reports
/// whether a failed call left the slot as it was. (Not a glue trait: implemented by hand for the
/// opaque object in dispatch.rs, and trivially for the implementors.)
pub trait RawSlotCall: ChildrenMore {
    fn m_res_rawslot(&self, fail: bool) -> Result<Self::MChild, bool>;
}

/// Four tiny traits whose names order differently with and without regard to case
/// (IOPort < Inspect and KVStore < KeyDumper case-sensitively; the other way round otherwise).
#[cglue_trait]
#[cglue_forward]
pub trait IOPort: Send {
    fn io_read(&self, port: u32) -> u64;
}
#[cglue_trait]
#[cglue_forward]
pub trait Inspect {
    fn inspect(&self) -> u64;
}
#[cglue_trait]
#[cglue_forward]
pub trait KVStore {
    fn kv_put(&mut self, k: u64, v: u64) -> u64;
    /// same-typed parameters whose names are not in alphabetical order
    fn kv_cell(&mut self, row: u64, col: u64, add: u64) -> u64;
    /// provided method that every implementor overrides
    fn kv_len(&self, scale: u64) -> u64 {
        scale
    }
}
#[cglue_trait]
#[cglue_forward]
pub trait KeyDumper {
    fn key_dump(&self, n: u32) -> u64;
}

// groups --------------------------------------------------------------------------------------

cglue_trait_group!(GrpR, ReadOnly, { IntResAlias });
cglue_trait_group!(GrpA, Basic, { Shapes, IntRes, IntResAlias });
cglue_trait_group!(GrpB, { Basic, Clone }, { Shapes, Children, Consume, Gen<usize> = GenUsize });
cglue_trait_group!(GrpD, { Inspect, IOPort }, { KeyDumper, KVStore });
cglue_trait_group!(GrpC, { ReadOnly, Consume }, { Basic, ChildrenMore, Gen<u64> = GenU64, Gen<usize> = GenUsize });

// -------------------------------------------------------------------------------------------
// implementors
// -------------------------------------------------------------------------------------------

/// Implements every corpus trait for a newtype around `Core`.
macro_rules! implementor {
    ($name:ident) => {
        pub struct $name {
            pub core: Core,
            /// nested instances that borrowed children are served from (created on first use)
            pub kid_ro: std::sync::OnceLock<Box<Solo>>,
            pub kid_mut: Option<Box<Solo>>,
        }

        impl $name {
            pub fn new(core: Core) -> Self {
                Self { core, kid_ro: std::sync::OnceLock::new(), kid_mut: None }
            }
            fn ro(&self) -> &Solo {
                self.kid_ro.get_or_init(|| Box::new(Solo::new(self.core.child(0xA1))))
            }
            fn mu(&mut self) -> &mut Solo {
                if self.kid_mut.is_none() {
                    self.kid_mut = Some(Box::new(Solo::new(self.core.child(0xB2))));
                }
                self.kid_mut.as_mut().unwrap()
            }
        }

        impl Clone for $name {
            fn clone(&self) -> Self {
                self.core.enter("clone", 0, &[]);
                Self::new(self.core.child(0xC10E))
            }
        }

        impl core::fmt::Debug for $name {
            fn fmt(&self, f: &mut core::fmt::Formatter<'_>) -> core::fmt::Result {
                self.core.enter("fmt_debug", 0, &[]);
                let s = self.core.mix(0xDEB);
                if s % 4 == 0 {
                    return Err(core::fmt::Error);
                }
                // (says how it was asked: a plain `{:?}` must arrive as a plain `{:?}`)
                write!(f, "Imp<{:x}>{}", s, if f.alternate() { "#" } else { "" })
            }
        }
        impl core::fmt::Display for $name {
            fn fmt(&self, f: &mut core::fmt::Formatter<'_>) -> core::fmt::Result {
                self.core.enter("fmt_display", 0, &[]);
                let s = self.core.mix(0xD15);
                // several pieces, one of them non-ASCII: every piece crosses the boundary as a &str
                f.write_str(&self.core.text)?;
                f.write_str("|")?;
                if s % 5 == 0 {
                    return Err(core::fmt::Error);
                }
                let plain = !f.alternate() && f.width().is_none() && f.precision().is_none() && !f.sign_plus();
                write!(f, "{}|{}", s % 1000, if plain { "" } else { "!" })
            }
        }
        impl AsRef<u64> for $name {
            fn as_ref(&self) -> &u64 {
                self.core.enter("as_ref", 0, &[(&self.core.cell as *const u64 as usize, 1)]);
                &self.core.cell
            }
        }

        impl Basic for $name {
            extern "C" fn b_get(&self) -> u64 {
                self.core.enter("b_get", 0, &[]);
                self.core.get()
            }
            fn b_add(&mut self, v: u64) -> u64 {
                self.core.enter("b_add", v, &[]);
                self.core.mix(v)
            }
            fn b_two(&mut self, a: u32, b: i64) -> i64 {
                self.core.enter("b_two", d2(a as u64, b as u64), &[]);
                self.core.mix(a as u64) as i64 ^ b
            }
            unsafe fn b_unsafe(&self, v: u32) -> u32 {
                self.core.enter("b_unsafe", v as u64, &[]);
                self.core.mix(v as u64 + 5) as u32
            }
            fn b_pin(self: Pin<&Self>) -> u64 {
                self.core.enter("b_pin", 0, &[]);
                self.core.get() ^ 0x50
            }
            fn b_pin_mut(self: Pin<&mut Self>, v: u64) -> u64 {
                self.core.enter("b_pin_mut", v, &[]);
                self.core.mix(v ^ 0x51)
            }
            extern "C" fn b_c_mut(&mut self, v: i32) -> i32 {
                self.core.enter("b_c_mut", v as u64, &[]);
                self.core.mix(v as u64) as i32
            }
            fn b_sub(&mut self, x: u64, y: u64) -> u64 {
                self.core.enter("b_sub", d2(x, y.rotate_left(1)), &[]);
                self.core.mix(x.wrapping_sub(y.wrapping_mul(3)))
            }
            fn b_where(&mut self, v: u64) -> u64 {
                self.core.enter("b_where", v, &[]);
                self.core.mix(v ^ 0x3E7E).wrapping_add(1000)
            }
        }

        impl ReadOnly for $name {
            fn r_get(&self) -> u64 {
                self.core.enter("r_get", 0, &[]);
                self.core.get()
            }
            fn r_touch(&self, v: u64) -> u64 {
                self.core.enter("r_touch", v, &[]);
                self.core.mix(v ^ 0x70)
            }
            fn r_str(&self) -> &str {
                self.core.enter("r_str", 0, &[(self.core.text.as_ptr() as usize, self.core.text.len())]);
                &self.core.text
            }
            fn r_slice(&self) -> &[u8] {
                self.core.enter("r_slice", 0, &[(self.core.buf.as_ptr() as usize, self.core.buf.len())]);
                &self.core.buf
            }
            fn r_sum(&self, v: &[u64]) -> u64 {
                let mut d = 0u64;
                for x in v { d = d2(d, *x); }
                self.core.enter("r_sum", d, &[(v.as_ptr() as usize, v.len())]);
                self.core.mix(d)
            }
            fn r_opt(&self, v: Option<usize>) -> Option<u64> {
                self.core.enter("r_opt", v.map(|x| x as u64 + 1).unwrap_or(0), &[]);
                v.map(|x| self.core.mix(x as u64))
            }
            fn r_cb(&self, n: u32, mut cb: OpaqueCallback<u64>) -> u32 {
                self.core.enter("r_cb", n as u64, &[]);
                let base = self.core.get();
                let mut cnt = 0;
                for i in 0..n {
                    cnt += 1;
                    if !cb.call(base.wrapping_add(i as u64)) { break; }
                }
                self.core.mix(cnt as u64);
                cnt
            }
        }

        impl Shapes for $name {
            fn s_slice(&mut self, v: &[u8]) -> usize {
                self.core.enter("s_slice", fnv(v), &[(v.as_ptr() as usize, v.len())]);
                self.core.mix(fnv(v));
                v.len()
            }
            fn s_slice_u64(&mut self, v: &[u64]) -> u64 {
                let mut d = 0u64;
                for x in v { d = d2(d, *x); }
                self.core.enter("s_slice_u64", d, &[(v.as_ptr() as usize, v.len())]);
                self.core.mix(d)
            }
            fn s_slice_mut(&mut self, v: &mut [u8]) -> u8 {
                self.core.enter("s_slice_mut", fnv(v), &[(v.as_ptr() as usize, v.len())]);
                let k = self.core.mix(v.len() as u64) as u8;
                for (i, x) in v.iter_mut().enumerate() { *x = x.wrapping_add(k).wrapping_add(i as u8); }
                k
            }
            fn s_str(&mut self, s: &str) -> u64 {
                self.core.enter("s_str", fnv(s.as_bytes()), &[(s.as_ptr() as usize, s.len())]);
                self.core.mix(fnv(s.as_bytes()) ^ s.chars().count() as u64)
            }
            fn s_opt(&mut self, v: Option<usize>) -> Option<u64> {
                self.core.enter("s_opt", v.map(|x| x as u64 ^ 0xAA).unwrap_or(1), &[]);
                match v { Some(x) if x % 3 != 0 => Some(self.core.mix(x as u64)), Some(_) => None, None => Some(self.core.mix(0)) }
            }
            fn s_opt_ref(&self, v: Option<&u64>) -> u64 {
                self.core.enter("s_opt_ref", v.map(|x| *x ^ 0xBB).unwrap_or(2), &[(v.map(|x| x as *const u64 as usize).unwrap_or(0), v.is_some() as usize)]);
                v.copied().unwrap_or(7) ^ self.core.get()
            }
            fn s_mixed(&mut self, r: Option<&u64>, o: Option<u64>) -> Option<u32> {
                self.core.enter("s_mixed", d2(r.copied().unwrap_or(3), o.unwrap_or(4)), &[]);
                match (r, o) { (Some(a), Some(b)) => Some(self.core.mix(*a ^ b) as u32), (None, None) => None, _ => Some(1) }
            }
            fn s_res(&mut self, v: Result<u32, i32>) -> Result<u64, i32> {
                self.core.enter("s_res", match v { Ok(x) => x as u64, Err(e) => (e as u64) ^ 0xE000_0000_0000 }, &[]);
                match v { Ok(x) if x % 2 == 0 => Ok(self.core.mix(x as u64)), Ok(x) => Err(x as i32), Err(e) => Err(e.wrapping_neg()) }
            }
            fn s_into(&mut self, v: impl Into<u64>) -> u64 {
                let v: u64 = v.into();
                self.core.enter("s_into", v, &[]);
                self.core.mix(v)
            }
            fn s_struct(&mut self, p: Pair) -> Pair {
                self.core.enter("s_struct", d2(p.a, d2(p.b as u64, p.c as u64)), &[]);
                Pair { a: self.core.mix(p.a), b: p.b.wrapping_add(1), c: p.c.wrapping_mul(3) }
            }
            fn s_cb(&mut self, n: u32, mut cb: OpaqueCallback<u64>) -> u32 {
                self.core.enter("s_cb", n as u64, &[]);
                let base = self.core.get();
                let mut cnt = 0;
                for i in 0..n {
                    cnt += 1;
                    if !cb.call(base.wrapping_mul(3).wrapping_add(i as u64)) { break; }
                }
                self.core.mix(cnt as u64);
                cnt
            }
            fn s_iter(&mut self, take: u32, it: CIterator<u64>) -> u64 {
                self.core.enter("s_iter", take as u64, &[]);
                let mut acc = 0u64;
                for x in it.take(take as usize) { acc = d2(acc, x); }
                self.core.mix(acc)
            }
            fn s_ret_str(&self) -> &str {
                self.core.enter("s_ret_str", 0, &[(self.core.text.as_ptr() as usize, self.core.text.len())]);
                &self.core.text
            }
            fn s_ret_slice(&self) -> &[u8] {
                self.core.enter("s_ret_slice", 0, &[(self.core.buf.as_ptr() as usize, self.core.buf.len())]);
                &self.core.buf
            }
            fn s_ret_mut_slice(&mut self) -> &mut [u8] {
                self.core.enter("s_ret_mut_slice", 0, &[(self.core.buf.as_ptr() as usize, self.core.buf.len())]);
                &mut self.core.buf
            }
            fn s_ret_opt_ref(&self, some: bool) -> Option<&u64> {
                self.core.enter("s_ret_opt_ref", some as u64, &[if some { (&self.core.cell as *const u64 as usize, 1) } else { (0, 0) }]);
                if some { Some(&self.core.cell) } else { None }
            }
            fn s_str_to_str<'a>(&'a mut self, s: &str) -> &'a str {
                self.core.enter("s_str_to_str", fnv(s.as_bytes()), &[(s.as_ptr() as usize, s.len()), (self.core.text.as_ptr() as usize, self.core.text.len())]);
                self.core.mix(s.len() as u64);
                &self.core.text
            }
            fn s_vec(&mut self, mut v: CVec<u64>) -> CVec<u64> {
                let mut d = 0u64;
                for x in v.iter() { d = d2(d, *x); }
                self.core.enter("s_vec", d, &[]);
                v.push(self.core.mix(d));
                v
            }
            fn s_two_slices(&mut self, a: &[u8], b: &[u8]) -> i64 {
                self.core.enter("s_two_slices", d2(fnv(a), fnv(b).rotate_left(3)), &[(a.as_ptr() as usize, a.len()), (b.as_ptr() as usize, b.len())]);
                self.core.mix(fnv(a) ^ fnv(b).rotate_left(5));
                a.len() as i64 - 2 * b.len() as i64
            }
            fn s_opt_then_slice(&mut self, o: Option<u64>, s: &[u64], t: &str) -> u64 {
                let mut d = o.map(|x| x ^ 0x0F).unwrap_or(9);
                for x in s { d = d2(d, *x); }
                d = d2(d, fnv(t.as_bytes()));
                self.core.enter("s_opt_then_slice", d, &[(s.as_ptr() as usize, s.len()), (t.as_ptr() as usize, t.len())]);
                self.core.mix(d)
            }
            fn s_two_mut(&mut self, a: &mut [u8], b: &mut u32) -> usize {
                self.core.enter("s_two_mut", d2(fnv(a), *b as u64), &[(a.as_ptr() as usize, a.len()), (b as *mut u32 as usize, 1)]);
                let k = self.core.mix(*b as u64) as u8;
                for x in a.iter_mut() { *x ^= k; }
                *b = b.wrapping_add(a.len() as u32 + 1);
                a.len()
            }
            fn s_copy(&mut self, src: &[u8], dst: &mut [u8]) -> usize {
                self.core.enter("s_copy", d2(fnv(src), fnv(dst)), &[(src.as_ptr() as usize, src.len()), (dst.as_ptr() as usize, dst.len())]);
                let n = src.len().min(dst.len());
                dst[..n].copy_from_slice(&src[..n]);
                self.core.mix(n as u64);
                src.len() * 100 + dst.len()
            }
            fn s_mut_ref(&mut self, out: &mut u64) -> bool {
                self.core.enter("s_mut_ref", *out, &[(out as *mut u64 as usize, 1)]);
                *out = self.core.mix(*out);
                *out % 2 == 0
            }
            fn s_unit(&mut self, v: u64) {
                self.core.enter("s_unit", v, &[]);
                self.core.mix(v ^ 0x33);
            }
            fn s_opt_mut(&mut self, v: Option<&mut u64>) -> bool {
                match v {
                    Some(x) => {
                        self.core.enter("s_opt_mut", *x, &[(x as *mut u64 as usize, 1)]);
                        *x = self.core.mix(*x);
                        true
                    }
                    None => {
                        self.core.enter("s_opt_mut", 0x0bad, &[(0, 0)]);
                        false
                    }
                }
            }
            fn s_ret_mut(&mut self) -> &mut u64 {
                self.core.enter("s_ret_mut", 0, &[(&self.core.cell as *const u64 as usize, 1)]);
                &mut self.core.cell
            }
            fn s_ret_opt_mut(&mut self, some: bool) -> Option<&mut u64> {
                self.core.enter("s_ret_opt_mut", some as u64, &[if some { (&self.core.cell as *const u64 as usize, 1) } else { (0, 0) }]);
                if some { Some(&mut self.core.cell) } else { None }
            }
            fn s_nz(&self, v: Option<core::num::NonZeroU32>) -> Option<core::num::NonZeroU32> {
                self.core.enter("s_nz", v.map(|x| x.get() as u64).unwrap_or(0), &[]);
                v.and_then(|x| core::num::NonZeroU32::new(x.get().wrapping_mul(3) & !1))
            }
            fn s_nested(&self, v: Option<Option<u64>>) -> Option<Option<u64>> {
                let d = match v { None => 1, Some(None) => 2, Some(Some(x)) => x.wrapping_add(3) };
                self.core.enter("s_nested", d, &[]);
                match v { None => Some(None), Some(None) => Some(Some(self.core.get())), Some(Some(x)) => if x % 2 == 0 { None } else { Some(Some(x ^ 0xFF)) } }
            }
            fn s_raw(&self, p: *const u64, q: *mut u64) -> *const u64 {
                self.core.enter("s_raw", 0, &[(p as usize, 1), (q as usize, 1)]);
                unsafe { *q = (*p).wrapping_add(self.core.get()) };
                q as *const u64
            }
            fn s_ctup(&self, t: CTup2<u64, i32>) -> CTup3<u8, u64, i32> {
                self.core.enter("s_ctup", d2(t.0, t.1 as u32 as u64), &[]);
                CTup3((t.0 >> 3) as u8, t.0 ^ self.core.get(), t.1.wrapping_neg())
            }
            fn s_copt(&self, t: COption<u64>) -> CResult<u64, i32> {
                let o: Option<u64> = t.into();
                self.core.enter("s_copt", o.map(|x| x.wrapping_add(1)).unwrap_or(0), &[]);
                match o { Some(x) if x % 3 != 0 => Ok(x ^ 0x1111).into(), Some(x) => Err(x as i32).into(), None => Err(-7).into() }
            }
            fn s_cstr(&self, s: ReprCStr<'_>) -> u64 {
                let t: &str = s.as_ref();
                self.core.enter("s_cstr", fnv(t.as_bytes()), &[]);
                fnv(t.as_bytes()) ^ self.core.get()
            }
            fn s_slices(&self, v: &[CSliceRef<u8>]) -> usize {
                let mut d = 0u64;
                for s in v { d = d2(d, fnv(s.as_slice())); }
                self.core.enter("s_slices", d, &[(v.as_ptr() as usize, v.len())]);
                v.iter().map(|s| s.len()).sum()
            }
            fn s_two_opts(&mut self, lo: Option<u64>, hi: Option<u64>) -> u64 {
                let d = d2(lo.map(|x| x.wrapping_add(1)).unwrap_or(0), hi.map(|x| x.wrapping_mul(3).wrapping_add(7)).unwrap_or(5));
                self.core.enter("s_two_opts", d, &[]);
                self.core.mix(d)
            }
            fn s_two_into(&mut self, a: impl Into<u64>, b: impl Into<u64>) -> u64 {
                let (a, b): (u64, u64) = (a.into(), b.into());
                let d = d2(a, b.rotate_left(17));
                self.core.enter("s_two_into", d, &[]);
                self.core.mix(d)
            }
            fn s_unit_slice(&mut self, v: &[Tick]) -> usize {
                self.core.enter("s_unit_slice", v.len() as u64, &[(v.as_ptr() as usize, v.len())]);
                self.core.mix(v.len() as u64);
                v.len()
            }
            fn s_ret_unit_slice(&self) -> &[Tick] {
                let n = (self.core.get() % 1000) as usize;
                self.core.enter("s_ret_unit_slice", n as u64, &[(TICKS.as_ptr() as usize, n)]);
                &TICKS[..n]
            }
        }

        impl IntRes for $name {
            fn ir_io(&mut self, code: i32, non_os: bool) -> Result<u64, std::io::Error> {
                self.core.enter("ir_io", d2(code as u64, non_os as u64), &[]);
                if non_os { Err(std::io::Error::new(std::io::ErrorKind::Other, "injected")) }
                else if code != 0 { Err(std::io::Error::from_raw_os_error(code)) }
                else { Ok(self.core.mix(11)) }
            }
            fn ir_io_unit(&mut self, code: i32) -> Result<(), std::io::Error> {
                self.core.enter("ir_io_unit", code as u64, &[]);
                if code != 0 { Err(std::io::Error::from_raw_os_error(code)) } else { self.core.mix(12); Ok(()) }
            }
            fn ir_unit_err(&mut self, fail: bool) -> Result<u32, ()> {
                self.core.enter("ir_unit_err", fail as u64, &[]);
                if fail { Err(()) } else { Ok(self.core.mix(13) as u32) }
            }
            fn ir_fmt(&self, fail: bool) -> Result<(), std::fmt::Error> {
                self.core.enter("ir_fmt", fail as u64, &[]);
                if fail { Err(std::fmt::Error) } else { Ok(()) }
            }
            fn ir_my(&mut self, code: i32) -> Result<Pair, MyErr> {
                self.core.enter("ir_my", code as u64, &[]);
                if code != 0 { Err(MyErr(code)) } else { Ok(Pair { a: self.core.mix(14), b: -5, c: 9 }) }
            }
            fn ir_vec(&mut self, code: i32, n: u32) -> Result<CVec<u64>, MyErr> {
                self.core.enter("ir_vec", d2(code as u64, n as u64), &[]);
                if code != 0 { Err(MyErr(code)) } else {
                    let base = self.core.mix(15);
                    Ok(CVec::from((0..n as u64).map(|i| base ^ i).collect::<Vec<u64>>()))
                }
            }
            fn ir_plain(&mut self, code: i32) -> Result<u64, i32> {
                self.core.enter("ir_plain", code as u64, &[]);
                if code != 0 { Err(code) } else { Ok(self.core.mix(16)) }
            }
            fn ir_one(&self, code: i32) -> Res1<u64> {
                self.core.enter("ir_one", code as u64, &[]);
                if code != 0 { Err(MyErr(code)) } else { Ok(self.core.mix(23)) }
            }
            fn ir_one_unit(&mut self, code: i32) -> Res1<()> {
                self.core.enter("ir_one_unit", code as u64, &[]);
                if code != 0 { Err(MyErr(code)) } else { self.core.mix(24); Ok(()) }
            }
            fn ir_alias(&self, code: i32) -> AliasRes<u64, TwoErr> {
                self.core.enter("ir_alias", code as u64, &[]);
                if code != 0 { Err(TwoErr { code, detail: code.wrapping_mul(5) + 2 }) } else { Ok(self.core.mix(21)) }
            }
        }

        impl Attrs for $name {
            type Num = u32;
            fn at_num(&self) -> u32 {
                self.core.enter("at_num", 0, &[]);
                (self.core.get() >> 7) as u32
            }
            fn at_num_mut(&mut self, salt: u32) -> u32 {
                self.core.enter("at_num_mut", salt as u64, &[]);
                self.core.mix(salt as u64 ^ 0x4E) as u32
            }
            fn at_first(&self, v: u64) -> u64 {
                self.core.enter("at_first", v, &[]);
                self.core.mix(v ^ 0xA1)
            }
            fn at_last(&mut self, v: u64) -> u64 {
                self.core.enter("at_last", v, &[]);
                self.core.mix(v ^ 0xA3)
            }
            extern "C" fn at_c(&self) -> u32 {
                self.core.enter("at_c", 0, &[]);
                self.core.get() as u32 ^ 0xA4
            }
            fn last(&mut self, v: u64) -> u64 {
                self.core.enter("last", v, &[]);
                self.core.mix(v ^ 0x1A57).wrapping_mul(7)
            }
        }
        impl<'a> Life<'a, u64> for $name {
            fn l_get(&self) -> &u64 {
                self.core.enter("l_get", 0, &[(&self.core.cell as *const u64 as usize, 1)]);
                &self.core.cell
            }
            fn l_eq(&self, v: &u64) -> bool {
                self.core.enter("l_eq", *v, &[(v as *const u64 as usize, 1)]);
                self.core.mix(*v) % 2 == 0
            }
            fn l_set(&mut self, v: u64) -> u64 {
                self.core.enter("l_set", v, &[]);
                let old = self.core.cell;
                self.core.cell = v;
                self.core.mix(v);
                old
            }
        }

        impl IntResMixed for $name {
            fn irm_marked(&self, code: i32) -> Result<u64, std::io::Error> {
                self.core.enter("irm_marked", code as u64, &[]);
                if code != 0 { Err(std::io::Error::from_raw_os_error(code)) } else { Ok(self.core.mix(21)) }
            }
            fn irm_plain(&self, code: i32, non_os: bool) -> Result<u64, std::io::Error> {
                self.core.enter("irm_plain", d2(code as u64, non_os as u64), &[]);
                if non_os { Err(std::io::Error::new(std::io::ErrorKind::InvalidData, "plain")) }
                else if code != 0 { Err(std::io::Error::from_raw_os_error(code)) }
                else { Ok(self.core.mix(22)) }
            }
            fn irm_marked_unit(&self, fail: bool) -> Result<(), ()> {
                self.core.enter("irm_marked_unit", fail as u64, &[]);
                if fail { Err(()) } else { self.core.mix(23); Ok(()) }
            }
            fn irm_plain_pair(&self, code: i32) -> Result<Pair, MyErr> {
                self.core.enter("irm_plain_pair", code as u64, &[]);
                // not integer-coded: code 0 stays 0 (MyErr(0) would be rewritten by the int encoding)
                if code % 2 == 0 { Err(MyErr(code)) } else { Ok(Pair { a: self.core.mix(24), b: code, c: 1 }) }
            }
        }

        // (ir_alias is implemented in the IntRes block below)
        impl IntResAlias for $name {
            fn ira_io(&self, code: i32) -> AliasRes<u64, std::io::Error> {
                self.core.enter("ira_io", code as u64, &[]);
                if code != 0 { Err(std::io::Error::from_raw_os_error(code)) } else { Ok(self.core.mix(17)) }
            }
            fn ira_plain(&self, code: i32) -> AliasRes<u64, u32> {
                self.core.enter("ira_plain", code as u64, &[]);
                if code != 0 { Err(code as u32) } else { Ok(self.core.mix(18)) }
            }
            fn ira_other(&self, code: i32) -> Result<u64, TwoErr> {
                self.core.enter("ira_other", code as u64, &[]);
                if code != 0 { Err(TwoErr { code, detail: code.wrapping_mul(3) + 1 }) } else { Ok(self.core.mix(19)) }
            }
        }

        impl Consume for $name {
            fn k_peek(&self) -> u64 {
                self.core.enter("k_peek", 0, &[]);
                self.core.get()
            }
            fn k_into(self) -> u64 {
                self.core.enter("k_into", 0, &[]);
                self.core.get() ^ 0xD1
            }
            fn k_with(self, v: u64) -> u64 {
                self.core.enter("k_with", v, &[]);
                self.core.mix(v) ^ 0xD2
            }
        }

        impl Gen<usize> for $name {
            fn g_set(&mut self, v: usize) -> usize {
                self.core.enter("g_set<usize>", v as u64, &[]);
                self.core.mix(v as u64) as usize
            }
            fn g_get(&self) -> u64 {
                self.core.enter("g_get<usize>", 0, &[]);
                self.core.get() ^ 0x61
            }
        }
        impl Gen<u64> for $name {
            fn g_set(&mut self, v: u64) -> u64 {
                self.core.enter("g_set<u64>", v, &[]);
                self.core.mix(v ^ 0x64)
            }
            fn g_get(&self) -> u64 {
                self.core.enter("g_get<u64>", 0, &[]);
                self.core.get() ^ 0x62
            }
        }

        impl Children for $name {
            type Child = Solo;
            type RefChild = Solo;
            type MutChild = Solo;
            type GChild = Solo;
            type GRefChild = Solo;
            type GMutChild = Solo;
            type NestChild = Solo;

            fn c_nest(&self) -> &Solo {
                self.core.enter("c_nest", 0, &[]);
                self.ro()
            }
            fn c_owned(&self, salt: u64) -> Solo {
                self.core.enter("c_owned", salt, &[]);
                Solo::new(self.core.child(salt))
            }
            fn c_owned_opt(&self, salt: u64, flag: Option<bool>, ch: Option<char>, n: Option<u32>) -> Solo {
                let f = match flag { None => 0, Some(false) => 1, Some(true) => 2 };
                let c = ch.map(|c| c as u64 + 1).unwrap_or(0);
                let k = n.map(|n| n as u64 + 1).unwrap_or(0);
                let d = salt ^ (f << 8) ^ (c << 16) ^ (k << 40);
                self.core.enter("c_owned_opt", d, &[]);
                Solo::new(self.core.child(d))
            }
            fn c_owned_mut(&mut self, salt: u64) -> Solo {
                self.core.enter("c_owned_mut", salt, &[]);
                self.core.mix(salt);
                Solo::new(self.core.child(salt ^ 1))
            }
            fn c_ref(&self) -> &Solo {
                self.core.enter("c_ref", 0, &[]);
                self.ro()
            }
            fn c_mut(&mut self) -> &mut Solo {
                self.core.enter("c_mut", 0, &[]);
                self.mu()
            }
            fn c_group(&self, salt: u64) -> Solo {
                self.core.enter("c_group", salt, &[]);
                Solo::new(self.core.child(salt ^ 0x6))
            }
            fn c_group_ref(&self) -> &Solo {
                self.core.enter("c_group_ref", 0, &[]);
                self.ro()
            }
            fn c_group_mut(&mut self) -> &mut Solo {
                self.core.enter("c_group_mut", 0, &[]);
                self.mu()
            }
            fn c_count(&self) -> u64 {
                self.core.enter("c_count", 0, &[]);
                self.core.get()
            }
        }

        impl<'a> Lend<'a> for $name {
            type Lent = LendView<'a>;
            type LentMut = Solo;
            fn lend_mut(&'a mut self) -> &'a mut Solo {
                self.core.enter("lend_mut", 0, &[]);
                self.mu()
            }
            fn lend(&'a mut self, salt: u64) -> LendView<'a> {
                self.core.enter("lend", salt, &[]);
                self.core.mix(salt ^ 0x1E);
                LendView { s: self.mu() }
            }
        }

        impl Dup for $name {
            fn dup(&self) -> Self {
                self.core.enter("dup", 0, &[]);
                <$name>::new(self.core.child(0xD0))
            }
            fn split(&mut self, by: u64) -> Self {
                self.core.enter("split", by, &[]);
                self.core.mix(by);
                <$name>::new(self.core.child(by ^ 0xD1))
            }
            fn dval(&self) -> u64 {
                self.core.enter("dval", 0, &[]);
                self.core.get() ^ 0xD2
            }
        }

        impl Spawner for $name {
            type Kid = Solo;
            fn sp_kid(&self, salt: u64) -> Solo {
                self.core.enter("sp_kid", salt, &[]);
                Solo::new(self.core.child(salt ^ 0x51))
            }
        }

        impl IOPort for $name {
            fn io_read(&self, port: u32) -> u64 {
                self.core.enter("io_read", port as u64, &[]);
                self.core.mix(port as u64 ^ 0x10)
            }
        }
        impl Inspect for $name {
            fn inspect(&self) -> u64 {
                self.core.enter("inspect", 0, &[]);
                self.core.get() ^ 0x1115
            }
        }
        impl KVStore for $name {
            fn kv_put(&mut self, k: u64, v: u64) -> u64 {
                self.core.enter("kv_put", d2(k, v), &[]);
                self.core.mix(k ^ v.rotate_left(9))
            }
            fn kv_cell(&mut self, row: u64, col: u64, add: u64) -> u64 {
                self.core.enter("kv_cell", d2(d2(row, col.rotate_left(21)), add.rotate_left(42)), &[]);
                self.core.mix(row.wrapping_mul(31) ^ col.rotate_left(7) ^ add.rotate_left(33))
            }
            fn kv_len(&self, scale: u64) -> u64 {
                self.core.enter("kv_len", scale, &[]);
                self.core.get().wrapping_mul(scale | 1)
            }
        }
        impl KeyDumper for $name {
            fn key_dump(&self, n: u32) -> u64 {
                self.core.enter("key_dump", n as u64, &[]);
                self.core.mix(n as u64 ^ 0xD0)
            }
        }

        impl RawSlotCall for $name {
            fn m_res_rawslot(&self, fail: bool) -> Result<$name, bool> {
                self.m_res(fail).map_err(|()| true)
            }
        }

        impl ChildrenMore for $name {
            type MChild = $name;
            fn m_consume(self, salt: u64) -> $name {
                self.core.enter("m_consume", salt, &[]);
                self.core.mix(salt);
                self
            }
            fn m_try(self, fail: bool) -> Result<$name, ()> {
                self.core.enter("m_try", fail as u64, &[]);
                if fail { Err(()) } else { self.core.mix(0x7E1); Ok(self) }
            }
            fn m_try_plain(self, fail: bool) -> Result<$name, ()> {
                self.core.enter("m_try_plain", fail as u64, &[]);
                if fail { Err(()) } else { self.core.mix(0x7E2); Ok(self) }
            }
            fn m_res(&self, fail: bool) -> Result<$name, ()> {
                self.core.enter("m_res", fail as u64, &[]);
                if fail { Err(()) } else { Ok($name::new(self.core.child(0x3E5))) }
            }
            fn m_res_plain(&self, fail: bool) -> Result<$name, ()> {
                self.core.enter("m_res_plain", fail as u64, &[]);
                if fail { Err(()) } else { Ok($name::new(self.core.child(0x3E6))) }
            }
            fn m_peek(&self) -> u64 {
                self.core.enter("m_peek", 0, &[]);
                self.core.get()
            }
        }
    };
}

/// Which optional traits of each group an implementor type enables (bit i = i-th optional trait
/// in the order of the group's definition in gen_groups.py).
pub trait HasMask {
    const GRP_A: u32;
    const GRP_R: u32;
    const GRP_B: u32;
    const GRP_C: u32;
    const GRP_D: u32;
}

// `Solo`: the type of every child; enables everything in the groups children are wrapped in.
implementor!(Solo);
cglue_impl_group!(Solo, GrpA, { Shapes, IntRes });
cglue_impl_group!(Solo, GrpR, { IntResAlias });
impl HasMask for Solo {
    const GRP_A: u32 = 3;
    const GRP_R: u32 = 1;
    const GRP_B: u32 = 0;
    const GRP_C: u32 = 0;
    const GRP_D: u32 = 0;
}

// One implementor type per enabled subset of each group's optional traits (generated).
include!("implementors_gen.rs");
