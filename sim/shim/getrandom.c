/* Seam for the process hash seed: std::collections::HashMap/HashSet take their keys from the
 * libc symbol `getrandom`. Preloading this makes iteration order a pure function of SIMRAND_SEED.
 * No source change in /repo is needed. */
#define _GNU_SOURCE
#include <stddef.h>
#include <stdlib.h>
#include <sys/types.h>

ssize_t getrandom(void *buf, size_t len, unsigned flags) {
    (void)flags;
    const char *s = getenv("SIMRAND_SEED");
    unsigned long long x = s ? strtoull(s, 0, 10) : 0;
    x = x * 6364136223846793005ULL + 1442695040888963407ULL;
    unsigned char *p = (unsigned char *)buf;
    for (size_t i = 0; i < len; i++) {
        x ^= x << 13; x ^= x >> 7; x ^= x << 17;
        p[i] = (unsigned char)(x >> 24);
    }
    return (ssize_t)len;
}
