//! primsim — simulation engines for cglue's runtime types (CArc, CVec, ReprCString, callbacks,
//! iterators, wakers, CBox) with a Rust party and a "C party" that only knows the published layout.

mod arc;
mod cbox;
mod cstr;
mod cview;
mod feed;
mod intres;
mod vec;
mod waker;

#[cfg(not(miri))]
#[global_allocator]
static GLOBAL: simcore::alloc::SimAlloc = simcore::alloc::SimAlloc;

fn main() {
    let engines: Vec<&dyn simcore::Engine> = vec![&arc::ArcEngine, &vec::VecEngine, &cstr::CStrEngine, &waker::WakerEngine, &feed::FeedEngine, &cbox::CBoxEngine, &intres::IntResEngine];
    let code = simcore::worker::worker_main(&engines);
    if code != 0 {
        std::process::exit(code);
    }
}
