//! C13 (direct API part): integer result codes. Histories of encode / decode steps over output
//! slots pre-filled with a pattern; success payloads carry ids and logged destructors, so "moved
//! once", "slot untouched on Err" and "slot read only when the code is 0" are observable.

use crate::vec::Reg;
use cglue::result::{from_int_result, from_int_result_empty, into_int_out_result, into_int_result, IntError, IntResult};
use simcore::alloc::track;
use simcore::{vcheck, Engine, Fnv, Plan, Rng, RunCtx, Step, VResult, Violation};
use std::mem::MaybeUninit;
use std::sync::atomic::Ordering;
use std::sync::Arc;

pub struct IntResEngine;

/// success payload with identity and destructor (32 bytes)
pub struct Pay {
    id: u32,
    tag: u64,
    heap: Box<u32>,
    reg: Arc<Reg>,
}
impl Pay {
    fn new(id: u32, reg: &Arc<Reg>) -> Pay {
        reg.inc(id);
        Pay { id, tag: 0x7A67_0000 + id as u64, heap: Box::new(id), reg: reg.clone() }
    }
}
impl Drop for Pay {
    fn drop(&mut self) {
        self.reg.dec(self.id);
    }
}

#[derive(Debug, PartialEq, Eq, Clone, Copy)]
struct UserErr(i32);
impl IntError for UserErr {
    fn into_int_err(self) -> core::num::NonZeroI32 {
        core::num::NonZeroI32::new(if self.0 == 0 { 0x4242 } else { self.0 }).unwrap()
    }
    fn from_int_err(e: core::num::NonZeroI32) -> Self {
        UserErr(e.get())
    }
}

const CODES: [i32; 12] = [0, 1, 2, -1, 13, 0xffff, i32::MIN, i32::MAX, 0x10000, 98, -4095, 255];

struct State {
    reg: Arc<Reg>,
    next_id: u32,
    /// payloads currently held in an initialised slot (alive exactly once)
    held: Vec<u32>,
}

const PATTERN: u8 = 0xB7;

fn slot_bytes<T>(s: &MaybeUninit<T>) -> Vec<u8> {
    unsafe { std::slice::from_raw_parts(s as *const _ as *const u8, std::mem::size_of::<T>()).to_vec() }
}
/// Fills a slot with the pattern where it stands (a slot that is moved after having been filled
/// keeps the bytes of its fields only: padding does not survive a move, and the "left untouched"
/// oracle reads every byte).
fn fill_slot<T>(s: &mut MaybeUninit<T>) {
    unsafe { std::ptr::write_bytes(s as *mut _ as *mut u8, PATTERN, std::mem::size_of::<T>()) };
}

fn reg_check(st: &State, when: &str) -> VResult {
    vcheck!(st.reg.negative.load(Ordering::SeqCst) == 0, "intres.payload_double_drop", "payload", "{}: a success payload was destroyed more often than created", when);
    vcheck!(st.reg.poison.load(Ordering::SeqCst) == 0, "intres.uninit_slot_read", "payload", "{}: a payload with an impossible id was destroyed: the output slot was read although it was never written", when);
    for id in 0..st.next_id {
        let live = st.reg.live[id as usize].load(Ordering::SeqCst);
        let want = st.held.iter().filter(|x| **x == id).count() as i32;
        vcheck!(live == want, "intres.payload_drop_mismatch", "payload", "{}: payload {} has {} live instance(s), expected {}", when, id, live, want);
    }
    simcore::check_alloc("intres")
}

fn apply(st: &mut State, step: &Step, counts: &mut Vec<&'static str>) -> Result<String, Violation> {
    let code = CODES[step.arg(0).rem_euclid(CODES.len() as i64) as usize];
    let fail = step.arg(1) & 1 == 1;
    match step.op.as_str() {
        "RoundPay" => {
            // Result<Pay, UserErr> through into_int_out_result + from_int_result
            let id = st.next_id;
            st.next_id += 1;
            let res: Result<Pay, UserErr> = if fail { Err(UserErr(code)) } else { Ok(Pay::new(id, &st.reg)) };
            let mut slot = MaybeUninit::<Pay>::uninit();
            fill_slot(&mut slot);
            let before = slot_bytes(&slot);
            let rc = track(|| if step.arg(2) & 1 == 1 { res.into_int_out_result(&mut slot) } else { into_int_out_result(res, &mut slot) });
            if fail {
                counts.push("fault.callee_error");
                vcheck!(rc != 0, "intres.err_encoded_as_zero", "UserErr", "Err(UserErr({})) encoded as 0", code);
                vcheck!(slot_bytes(&slot) == before, "intres.slot_written_on_err", "into_int_out_result", "the output slot was modified although the result was Err");
                let want = if code == 0 { 0x4242 } else { code };
                vcheck!(rc == want, "intres.code_altered", "UserErr", "Err(UserErr({})) encoded as {}", code, rc);
            } else {
                vcheck!(rc == 0, "intres.ok_encoded_nonzero", "into_int_out_result", "Ok encoded as {}", rc);
                st.held.push(id);
            }
            reg_check(st, "after encoding")?;
            // decode: reads the slot only when the code is 0
            let back: Result<Pay, UserErr> = unsafe { track(|| from_int_result(rc, slot)) };
            match (&back, fail) {
                (Ok(p), false) => {
                    vcheck!(p.id == id && p.tag == 0x7A67_0000 + id as u64 && *p.heap == id, "intres.payload_corrupt", "from_int_result", "decoded payload differs from the one encoded");
                }
                (Err(e), true) => {
                    let want = if code == 0 { 0x4242 } else { code };
                    vcheck!(e.0 == want, "intres.code_altered", "UserErr", "decoded error {} but {} was encoded", e.0, want);
                }
                (Ok(_), true) => return Err(Violation::new("intres.decoded_ok_from_error", "from_int_result", format!("code {} decoded as Ok", rc))),
                (Err(_), false) => return Err(Violation::new("intres.decoded_err_from_ok", "from_int_result", "code 0 decoded as Err".into())),
            }
            reg_check(st, "after decoding")?;
            st.held.retain(|x| *x != id);
            track(|| drop(back));
            reg_check(st, "after releasing the decoded value")?;
            Ok(format!("RoundPay fail={} code={} rc={}", fail, code, rc))
        }
        "RoundZst" => {
            // a zero-sized success payload with a destructor (a permit / guard type): moved into
            // the slot once, destroyed once — when the decoded value is released
            let res: Result<ZTok, UserErr> = if fail { Err(UserErr(code)) } else { Z_LIVE.fetch_add(1, std::sync::atomic::Ordering::SeqCst); Ok(ZTok) };
            let mut slot = MaybeUninit::<ZTok>::uninit();
            fill_slot(&mut slot);
            let rc = track(|| if step.arg(2) & 1 == 1 { res.into_int_out_result(&mut slot) } else { into_int_out_result(res, &mut slot) });
            vcheck!((rc == 0) == !fail, "intres.err_encoded_as_zero", "zst", "Result<zero-sized, UserErr> fail={} encoded as {}", fail, rc);
            let live = Z_LIVE.load(std::sync::atomic::Ordering::SeqCst);
            vcheck!(live == (!fail) as i32, "intres.payload_drop", "zst", "after encoding {} zero-sized payload(s) are alive, expected {}", live, (!fail) as i32);
            let back: Result<ZTok, UserErr> = unsafe { track(|| from_int_result(rc, slot)) };
            vcheck!(back.is_ok() == !fail, "intres.decoded_ok_from_error", "zst", "code {} decoded as ok={}", rc, back.is_ok());
            let live = Z_LIVE.load(std::sync::atomic::Ordering::SeqCst);
            vcheck!(live == (!fail) as i32, "intres.payload_drop", "zst", "after decoding {} zero-sized payload(s) are alive, expected {}", live, (!fail) as i32);
            track(|| drop(back));
            let live = Z_LIVE.load(std::sync::atomic::Ordering::SeqCst);
            vcheck!(live == 0 && Z_NEG.load(std::sync::atomic::Ordering::SeqCst) == 0, "intres.payload_drop", "zst", "after releasing the decoded value {} zero-sized payload(s) are alive ({} destroyed without having existed)", live, Z_NEG.load(std::sync::atomic::Ordering::SeqCst));
            Ok(format!("RoundZst fail={} code={} rc={}", fail, code, rc))
        }
        "RoundIo" => {
            let non_os = step.arg(2) & 1 == 1;
            let res: Result<u64, std::io::Error> = if !fail {
                Ok(0xABCD_EF01_2345_6789)
            } else if non_os {
                Err(std::io::Error::new(std::io::ErrorKind::InvalidData, "x"))
            } else {
                Err(std::io::Error::from_raw_os_error(code))
            };
            let mut slot = MaybeUninit::<u64>::uninit();
            fill_slot(&mut slot);
            let before = slot_bytes(&slot);
            let rc = track(|| into_int_out_result(res, &mut slot));
            vcheck!((rc == 0) == !fail, "intres.err_encoded_as_zero", "io::Error", "io result (fail={}, code={}, non_os={}) encoded as {}", fail, code, non_os, rc);
            if fail {
                counts.push("fault.callee_error");
                vcheck!(slot_bytes(&slot) == before, "intres.slot_written_on_err", "into_int_out_result", "the output slot was modified although the result was Err");
            }
            let back: Result<u64, std::io::Error> = unsafe { from_int_result(rc, slot) };
            match back {
                Ok(v) => vcheck!(!fail && v == 0xABCD_EF01_2345_6789, "intres.decoded_ok_from_error", "from_int_result", "decoded Ok({:#x})", v),
                Err(e) => {
                    vcheck!(fail, "intres.decoded_err_from_ok", "from_int_result", "Ok decoded as Err");
                    if !non_os && code != 0 {
                        counts.push("probe.os_code_roundtrip");
                        vcheck!(e.raw_os_error() == Some(code), "intres.code_altered", "io::Error", "OS error code {} came back as {:?}", code, e.raw_os_error());
                    }
                }
            }
            Ok(format!("RoundIo fail={} code={} non_os={} rc={}", fail, code, non_os, rc))
        }
        "Plain" => {
            // into_int_result / from_int_result_empty / unit and fmt errors
            let r1: Result<u8, ()> = if fail { Err(()) } else { Ok(1) };
            let c1 = into_int_result(r1);
            vcheck!((c1 == 0) == !fail, "intres.err_encoded_as_zero", "()", "Result<_, ()> fail={} encoded as {}", fail, c1);
            let r2: Result<(), std::fmt::Error> = if fail { Err(std::fmt::Error) } else { Ok(()) };
            let c2 = r2.into_int_result();
            vcheck!((c2 == 0) == !fail, "intres.err_encoded_as_zero", "fmt::Error", "Result<_, fmt::Error> fail={} encoded as {}", fail, c2);
            // the slot-less encoder with a payload that owns something: there is nowhere to
            // move it to, so it is destroyed (once) by the time the code is returned
            let id = st.next_id;
            st.next_id += 1;
            let r3: Result<Pay, UserErr> = if fail { Err(UserErr(code)) } else { Ok(Pay::new(id, &st.reg)) };
            let c3 = track(|| if step.arg(2) & 1 == 1 { r3.into_int_result() } else { into_int_result(r3) });
            vcheck!((c3 == 0) == !fail, "intres.err_encoded_as_zero", "into_int_result", "Result<payload, UserErr> fail={} encoded as {}", fail, c3);
            reg_check(st, "after the slot-less encoder")?;
            let d: Result<(), UserErr> = from_int_result_empty(code);
            vcheck!(d.is_ok() == (code == 0), "intres.decoded_ok_from_error", "from_int_result_empty", "code {} decoded as {:?}", code, d);
            if let Err(e) = d {
                vcheck!(e.0 == code, "intres.code_altered", "from_int_result_empty", "code {} decoded as {}", code, e.0);
            }
            // codes a foreign callee may return for the shipped unit-like error types: any
            // non-zero code is an error (the encoder's own choice of code is not the only one)
            let du: Result<(), ()> = from_int_result_empty(code);
            vcheck!(du.is_ok() == (code == 0), "intres.decoded_ok_from_error", "from_int_result_empty::<()>", "code {} decoded as {:?}", code, du);
            let df: Result<(), std::fmt::Error> = from_int_result_empty(code);
            vcheck!(df.is_ok() == (code == 0), "intres.decoded_ok_from_error", "from_int_result_empty::<fmt::Error>", "code {} decoded as {:?}", code, df);
            let mut slot = MaybeUninit::<u64>::uninit();
            fill_slot(&mut slot);
            unsafe { slot.as_mut_ptr().write(7) };
            let dv: Result<u64, ()> = unsafe { from_int_result(code, slot) };
            vcheck!(dv == if code == 0 { Ok(7) } else { Err(()) }, "intres.decoded_ok_from_error", "from_int_result::<u64, ()>", "code {} decoded as {:?}", code, dv);
            // shipped error types never encode to 0
            let z = std::io::Error::from_raw_os_error(0).into_int_err().get();
            vcheck!(z != 0, "intres.err_encoded_as_zero", "io::Error", "io::Error with OS code 0 encoded as 0");
            Ok(format!("Plain fail={} code={}", fail, code))
        }
        _ => Ok(format!("unknown-op {}", step.op)),
    }
}

const OPS: [&str; 4] = ["RoundPay", "RoundIo", "Plain", "RoundZst"];

/// Zero-sized payload with a counted destructor.
pub struct ZTok;
static Z_LIVE: std::sync::atomic::AtomicI32 = std::sync::atomic::AtomicI32::new(0);
static Z_NEG: std::sync::atomic::AtomicU32 = std::sync::atomic::AtomicU32::new(0);
impl Drop for ZTok {
    fn drop(&mut self) {
        if Z_LIVE.fetch_sub(1, std::sync::atomic::Ordering::SeqCst) <= 0 {
            Z_NEG.fetch_add(1, std::sync::atomic::Ordering::SeqCst);
        }
    }
}

impl Engine for IntResEngine {
    fn name(&self) -> &'static str {
        "intres"
    }
    fn gen(&self, rng: &mut Rng, _thorough: bool) -> Plan {
        let mut p = Plan::new("intres");
        let threads = rng.range(1, 2);
        p.set("threads", threads);
        let n = rng.range(2, 16);
        let fail_rate = rng.range(0, 3) as u64;
        for _ in 0..n {
            let t = rng.below(threads as u64) as u8;
            let op = OPS[rng.weighted(&[10, 10, 3, 5])];
            p.push(t, op, &[rng.range(0, 11), rng.chance(fail_rate, 3) as i64, rng.range(0, 1)]);
        }
        p
    }
    fn exec(&self, plan: &Plan, ctx: &mut RunCtx) -> VResult {
        Z_LIVE.store(0, std::sync::atomic::Ordering::SeqCst);
        Z_NEG.store(0, std::sync::atomic::Ordering::SeqCst);
        let mut st = State { reg: Reg::new(), next_id: 0, held: Vec::new() };
        for (i, step) in plan.steps.iter().enumerate() {
            ctx.cur_step = i as i64;
            simcore::alloc::set_step(i as i64);
            let mut counts = Vec::new();
            let stp = SendMut(&mut st as *mut State);
            let r = ctx.baton.on(step.t, || {
                let stp = stp;
                apply(unsafe { &mut *stp.0 }, step, &mut counts)
            });
            for c in counts {
                ctx.count(c);
            }
            match r {
                Ok(line) => {
                    ctx.count(&format!("op.{}", step.op));
                    ctx.effective(true);
                    ctx.log(&format!("s{} t{} {}", i, step.t, line));
                    let mut h = Fnv::new();
                    h.str(&step.op);
                    h.i64(step.arg(0).rem_euclid(12));
                    h.i64(step.arg(1) & 1);
                    ctx.reach(h.0, plan.steps.get(i + 1).map(|s| s.op.as_str()));
                }
                Err(mut v) => {
                    v.step = i as i64;
                    std::mem::forget(st);
                    return Err(v);
                }
            }
        }
        reg_check(&st, "at quiescence")?;
        simcore::check_no_leak("intres")
    }
}

struct SendMut<T>(*mut T);
unsafe impl<T> Send for SendMut<T> {}
impl<T> Clone for SendMut<T> {
    fn clone(&self) -> Self {
        SendMut(self.0)
    }
}
impl<T> Copy for SendMut<T> {}
