//! C15 (+C16 for callback/iterator layout): OpaqueCallback / FeedCallback / FromExtend and CIterator.
//! Sinks and sources are the simulator's streams; items carry ids and logged destructors.
//!
//! Faults: cancellation (sink answers `false` at a seeded position), non-fused sources (yield
//! `None` once, then resume), early drop of the wrapper mid-stream, interleaving wrapper and direct
//! use of the source, the C party driving `{context, func}` / `{iter, func}` directly.

use crate::cview::{CallbackView, IterView};
use crate::vec::Reg;
use cglue::callback::{Callbackable, FeedCallback, FromExtend, OpaqueCallback};
use cglue::iter::{AsCIterator, CIterator};
use simcore::alloc::track;
use simcore::{vcheck, Engine, Fnv, Plan, Rng, RunCtx, Step, VResult, Violation};
use std::collections::VecDeque;
use std::sync::atomic::Ordering;
use std::sync::Arc;

pub struct FeedEngine;

pub struct Tok {
    id: u32,
    reg: Arc<Reg>,
}
impl Tok {
    fn new(id: u32, reg: &Arc<Reg>) -> Tok {
        reg.inc(id);
        Tok { id, reg: reg.clone() }
    }
}
impl Drop for Tok {
    fn drop(&mut self) {
        self.reg.dec(self.id);
    }
}

/// The simulator's source stream. Not fused: may yield `None` once in the middle and then resume.
struct SimIter {
    items: VecDeque<Tok>,
    none_at: Option<usize>,
    pulled: usize,
    gave_none: bool,
    calls: usize,
}
impl Iterator for SimIter {
    type Item = Tok;
    fn next(&mut self) -> Option<Tok> {
        self.calls += 1;
        if !self.gave_none && self.none_at == Some(self.pulled) {
            self.gave_none = true;
            return None;
        }
        let r = self.items.pop_front();
        if r.is_some() {
            self.pulled += 1;
        }
        r
    }
}

static END_CODE: std::sync::atomic::AtomicI32 = std::sync::atomic::AtomicI32::new(1);

/// next function of an iterator made by the simulated foreign module: any non-zero code means
/// "no item" and `out` is left untouched.
unsafe extern "C" fn foreign_next(iter: *mut std::ffi::c_void, out: *mut Tok) -> i32 {
    let s = &mut *(iter as *mut SimIter);
    match s.next() {
        Some(t) => {
            std::ptr::write(out, t);
            0
        }
        None => END_CODE.load(Ordering::Relaxed),
    }
}

/// callback made by the simulated foreign module
struct ForeignSink {
    seen: Vec<Tok>,
    stop_at: Option<usize>,
    calls_after_false: usize,
    stopped: bool,
}
unsafe extern "C" fn foreign_cb(ctx: *mut std::ffi::c_void, item: Tok) -> bool {
    let s = &mut *(ctx as *mut ForeignSink);
    if s.stopped {
        s.calls_after_false += 1;
    }
    s.seen.push(item);
    if Some(s.seen.len() - 1) == s.stop_at {
        s.stopped = true;
        false
    } else {
        true
    }
}

struct IterState {
    src: Box<SimIter>,
    wrapper: Option<CIterator<'static, Tok>>,
    /// ids in source order
    ids: Vec<u32>,
    /// how many have been read (through any path)
    read: usize,
    none_pending: bool,
    m_none_at: Option<usize>,
    m_gave_none: bool,
}

struct State {
    reg: Arc<Reg>,
    next_id: u32,
    it: Option<IterState>,
}

fn fresh(st: &mut State, n: usize) -> (VecDeque<Tok>, Vec<u32>) {
    let mut v = VecDeque::new();
    let mut ids = Vec::new();
    for _ in 0..n {
        let id = st.next_id;
        st.next_id += 1;
        v.push_back(Tok::new(id, &st.reg));
        ids.push(id);
    }
    (v, ids)
}

fn reg_check(st: &State, expect_live: &[u32], when: &str) -> VResult {
    vcheck!(st.reg.negative.load(Ordering::SeqCst) == 0, "feed.item_double_drop", "item", "{}: an item was destroyed more often than it was created", when);
    vcheck!(st.reg.poison.load(Ordering::SeqCst) == 0, "feed.item_fabricated", "item", "{}: an item the source never yielded was produced or destroyed", when);
    for id in 0..st.next_id {
        let live = st.reg.live[id as usize].load(Ordering::SeqCst);
        let want = expect_live.iter().filter(|x| **x == id).count() as i32;
        vcheck!(live == want, "feed.item_drop_mismatch", "item", "{}: item {} has {} live instance(s), expected {}", when, id, live, want);
    }
    Ok(())
}

fn feed_step(st: &mut State, step: &Step, counts: &mut Vec<&'static str>) -> Result<String, Violation> {
    let len = step.arg(0).clamp(0, 12) as usize;
    let none_at = if step.arg(1) >= 0 && (step.arg(1) as usize) < len { Some(step.arg(1) as usize) } else { None };
    let sink_kind = step.arg(2).rem_euclid(4);
    let stop_at: Option<usize> = if (sink_kind == 0 || sink_kind == 3) && step.arg(3) >= 0 { Some(step.arg(3) as usize) } else { None };
    let via = step.arg(4).rem_euclid(5);
    let by_ref = step.arg(5) & 1 == 1;
    let (items, ids) = fresh(st, len);
    let mut src = SimIter { items, none_at, pulled: 0, gave_none: false, calls: 0 };
    if none_at.is_some() {
        counts.push("fault.nonfused_source");
    }
    let limit_src = none_at.unwrap_or(len);
    let offered = match stop_at {
        Some(k) => limit_src.min(k + 1),
        None => limit_src,
    };
    if let Some(k) = stop_at {
        if k < limit_src {
            counts.push("fault.cancel");
            if k == 0 { counts.push("probe.stop_at_first"); }
            if k + 1 == limit_src { counts.push("probe.stop_at_last"); }
        }
    }
    // sinks
    let mut seen: Vec<u32> = Vec::new();
    let mut calls_after_false = 0usize;
    // (cells: the caller changes its mind between two feedings of the same callback object)
    let stop_at_now = std::cell::Cell::new(stop_at);
    let stopped = std::cell::Cell::new(false);
    let mut second: Option<(usize, Vec<u32>, Vec<u32>)> = None;
    let mut held: Vec<Tok> = Vec::new();
    let mut vec_sink: Vec<Tok> = Vec::new();
    let mut ext_sink: VecDeque<Tok> = VecDeque::new();
    let mut count: Option<usize> = None;
    let mut fsink = ForeignSink { seen: Vec::new(), stop_at, calls_after_false: 0, stopped: false };
    if sink_kind == 3 {
        counts.push("fault.foreign_module");
    }
    // a callback's body may itself feed another callback (two closure callbacks active at once)
    let nested = sink_kind == 0 && step.arg(5) & 2 == 2;
    let reuse = sink_kind == 0 && via == 1 && step.arg(5) & 4 == 4;
    let mut inner_bad: Vec<String> = Vec::new();
    if nested {
        counts.push("fault.nested_feed_inside_callback");
    }
    {
        let mut closure = |t: Tok| -> bool {
            if stopped.get() {
                calls_after_false += 1;
            }
            if nested {
                let mut inner_seen: Vec<u64> = Vec::new();
                let mut inner = |v: u64| -> bool {
                    inner_seen.push(v);
                    inner_seen.len() < 2
                };
                let base = t.id as u64 * 10;
                let n = (base..base + 3).feed_into(OpaqueCallback::from(&mut inner));
                if n != 2 || inner_seen != [base, base + 1] {
                    inner_bad.push(format!("inside the callback's call for item {}: an inner feed of [{}, {}, {}] into a callback that stops at its second item reported {} and delivered {:?}", t.id, base, base + 1, base + 2, n, inner_seen));
                }
            }
            seen.push(t.id);
            held.push(t);
            if Some(seen.len() - 1) == stop_at_now.get() {
                stopped.set(true);
                false
            } else {
                true
            }
        };
        let mut cb: OpaqueCallback<Tok> = match sink_kind {
            0 => OpaqueCallback::from(&mut closure),
            1 => OpaqueCallback::from(&mut vec_sink),
            2 => ext_sink.from_extend(),
            _ => unsafe {
                crate::cview::view::<CallbackView<Tok>, OpaqueCallback<Tok>>(CallbackView { context: &mut fsink as *mut ForeignSink as *mut std::ffi::c_void, func: Some(foreign_cb) })
            },
        };
        track(|| match via {
            0 => {
                count = Some(if by_ref { (&mut src).feed_into(cb) } else {
                    let s = std::mem::replace(&mut src, SimIter { items: VecDeque::new(), none_at: None, pulled: 0, gave_none: false, calls: 0 });
                    s.feed_into(cb)
                });
            }
            1 => {
                count = Some((&mut src).feed_into_mut(&mut cb));
                if reuse && stopped.get() {
                    // the same callback object is fed again; what it answers now is up to the
                    // closure behind it, which has changed its mind
                    stop_at_now.set(None);
                    stopped.set(false);
                    let (items2, ids2) = fresh(st, 2);
                    let mut src2 = SimIter { items: items2, none_at: None, pulled: 0, gave_none: false, calls: 0 };
                    let c2 = (&mut src2).feed_into_mut(&mut cb);
                    second = Some((c2, ids2, src2.items.iter().map(|t| t.id).collect()));
                }
            }
            2 => {
                cb.extend(&mut src);
            }
            3 => {
                // the `call` API used directly (also through the Callbackable trait)
                let mut n = 0;
                while let Some(x) = src.next() {
                    n += 1;
                    let go = if n % 2 == 0 { cb.call(x) } else { Callbackable::call(&mut cb, x) };
                    if !go {
                        break;
                    }
                }
                count = Some(n);
            }
            _ => {
                // C party: knows only {context, func}
                let view: CallbackView<Tok> = unsafe { std::ptr::read(&cb as *const _ as *const CallbackView<Tok>) };
                let mut n = 0;
                while let Some(x) = src.next() {
                    n += 1;
                    let go = unsafe { (view.func.expect("func null"))(view.context, x) };
                    if !go {
                        break;
                    }
                }
                count = Some(n);
            }
        });
    }
    if via == 4 {
        counts.push("party.c");
    }
    let mut first_seen = seen.clone();
    let mut live_extra: Vec<u32> = Vec::new();
    if let Some((c2, ids2, left2)) = &second {
        counts.push("fault.callback_reused_after_stop");
        let tail = first_seen.split_off(offered.min(first_seen.len()));
        vcheck!(*c2 == 2 && &tail == ids2 && left2.is_empty(), "feed.reuse_after_stop", "sink0:via1",
            "a callback that had answered false was fed two more items {:?} while its closure accepts everything: it was invoked for {:?}, the feed reported {} and left {:?} in the source", ids2, tail, c2, left2);
        live_extra = ids2.clone();
    }
    let got: Vec<u32> = match sink_kind {
        0 => first_seen.clone(),
        1 => vec_sink.iter().map(|t| t.id).collect(),
        2 => ext_sink.iter().map(|t| t.id).collect(),
        _ => fsink.seen.iter().map(|t| t.id).collect(),
    };
    calls_after_false += fsink.calls_after_false;
    let site = format!("sink{}:via{}", sink_kind, via);
    let want: Vec<u32> = ids[..offered].to_vec();
    vcheck!(inner_bad.is_empty(), "feed.nested_feed", &site, "{}", inner_bad.join("; "));
    vcheck!(calls_after_false == 0, "feed.called_after_stop", &site, "sink was invoked {} more time(s) after it answered false", calls_after_false);
    vcheck!(got == want, "feed.sequence_mismatch", &site, "sink saw items {:?}, offered prefix is {:?} (source {:?}, stop_at {:?}, none_at {:?})", got, want, ids, stop_at, none_at);
    if let Some(c) = count {
        vcheck!(c == offered, "feed.count_mismatch", &site, "reported count {} but {} item(s) were offered", c, offered);
    }
    if by_ref || via != 0 {
        // the source must not have been drained beyond what was offered
        vcheck!(src.pulled == offered, "feed.source_overdrawn", &site, "{} item(s) pulled from the source, {} offered to the sink", src.pulled, offered);
    }
    // every offered item is alive exactly once inside the sink, the rest inside the source (or gone with it)
    let base_live: Vec<u32> = st.it.as_ref().map(|it| it.src.items.iter().map(|t| t.id).collect()).unwrap_or_default();
    let mut live: Vec<u32> = got.clone();
    live.extend(live_extra.iter().copied());
    live.extend(src.items.iter().map(|t| t.id));
    live.extend(base_live.iter().copied());
    reg_check(st, &live, "after feeding")?;
    drop(held);
    drop(fsink);
    drop(vec_sink);
    drop(ext_sink);
    drop(src);
    reg_check(st, &base_live, "after releasing sink and source")?;
    Ok(format!("Feed len={} none_at={:?} sink={} stop_at={:?} via={} byref={} offered={}", len, none_at, sink_kind, stop_at, via, by_ref, offered))
}

fn iter_src(st: &mut State, step: &Step, counts: &mut Vec<&'static str>) -> Result<String, Violation> {
    if let Some(old) = st.it.take() {
        drop(old.wrapper);
        drop(old.src);
    }
    let len = step.arg(0).clamp(0, 10) as usize;
    let none_at = if step.arg(1) >= 0 && (step.arg(1) as usize) < len { Some(step.arg(1) as usize) } else { None };
    if none_at.is_some() {
        counts.push("fault.nonfused_source");
    }
    let (items, ids) = fresh(st, len);
    st.it = Some(IterState { src: Box::new(SimIter { items, none_at, pulled: 0, gave_none: false, calls: 0 }), wrapper: None, ids, read: 0, none_pending: none_at == Some(0), m_none_at: none_at, m_gave_none: none_at == Some(0) });
    Ok(format!("ISrc len={} none_at={:?}", len, none_at))
}

/// What reading one element through any path must produce, per the model.
fn expect_next(it: &mut IterState) -> Option<u32> {
    if it.none_pending {
        it.none_pending = false;
        return None;
    }
    if it.read < it.ids.len() {
        let id = it.ids[it.read];
        it.read += 1;
        if it.m_none_at == Some(it.read) && !it.m_gave_none {
            it.none_pending = true;
            it.m_gave_none = true;
        }
        Some(id)
    } else {
        None
    }
}

fn iter_op(st: &mut State, step: &Step, counts: &mut Vec<&'static str>) -> Result<String, Violation> {
    let Some(it) = st.it.as_mut() else { return Ok(format!("{} noop", step.op)) };
    match step.op.as_str() {
        "IWrap" => {
            if it.wrapper.is_some() {
                return Ok("IWrap noop".into());
            }
            // SAFETY (harness): the box is stable and outlives the wrapper; the executor serialises all use
            let src: &'static mut SimIter = unsafe { &mut *(&mut *it.src as *mut SimIter) };
            let w = track(|| match step.arg(0).rem_euclid(4) {
                0 => CIterator::new(src),
                1 => src.as_citer(),
                2 => CIterator::from(src),
                _ => {
                    counts.push("fault.foreign_module");
                    let v = IterView::<Tok> { iter: src as *mut SimIter as *mut std::ffi::c_void, func: Some(foreign_next) };
                    unsafe { crate::cview::view::<IterView<Tok>, CIterator<'static, Tok>>(v) }
                }
            });
            it.wrapper = Some(w);
            Ok(format!("IWrap how={}", step.arg(0).rem_euclid(4)))
        }
        "INext" => {
            if it.wrapper.is_none() {
                return Ok("INext noop".into());
            }
            let party = step.arg(0) & 1;
            let calls_before = it.src.calls;
            let got: Option<Tok> = if party == 1 {
                counts.push("party.c");
                let w = it.wrapper.as_mut().unwrap();
                let view: IterView<Tok> = unsafe { std::ptr::read(w as *const _ as *const IterView<Tok>) };
                let mut out = std::mem::MaybeUninit::<Tok>::uninit();
                let code = unsafe { track(|| (view.func.expect("func null"))(view.iter, out.as_mut_ptr())) };
                if code == 0 { Some(unsafe { out.assume_init() }) } else { None }
            } else {
                let w = it.wrapper.as_mut().unwrap();
                track(|| w.next())
            };
            let want = expect_next(it);
            let g = got.as_ref().map(|t| t.id);
            vcheck!(g == want, "iter.sequence_mismatch", if party == 1 { "next:C" } else { "next:Rust" }, "wrapper yielded {:?}, the source's next item is {:?}", g, want);
            vcheck!(it.src.calls == calls_before + 1, "iter.source_calls", "next", "one next() on the wrapper advanced the source {} time(s)", it.src.calls - calls_before);
            if want.is_none() {
                counts.push("probe.iter_end_or_gap");
            }
            drop(got);
            Ok(format!("INext party={} -> {:?}", party, want))
        }
        "IDirect" => {
            // use the source directly while a wrapper may exist
            let got = it.src.next();
            let want = expect_next(it);
            let g = got.as_ref().map(|t| t.id);
            // (the source itself never misbehaves: if it is not where the model says, something
            // other than the reads made so far has advanced or rewound it - the wrapper)
            vcheck!(g == want, "iter.source_disturbed", "direct", "reading the source directly gives {:?}, after the reads made so far it should give {:?}: the wrapper has moved the source on its own", g, want);
            if it.wrapper.is_some() {
                counts.push("probe.direct_use_while_wrapped");
            }
            Ok(format!("IDirect -> {:?}", want))
        }
        "ITake" => {
            if it.wrapper.is_none() {
                return Ok("ITake noop".into());
            }
            let n = step.arg(0).clamp(0, 6) as usize;
            let mode = step.arg(1).rem_euclid(5);
            let w = it.wrapper.as_mut().unwrap();
            // the consumer's side of std's Iterator: adaptors and shortcuts built on next()
            let (got, how): (Vec<Tok>, &str) = match mode {
                0 => (track(|| w.by_ref().take(n).collect()), "take"),
                1 => (track(|| w.nth(n).into_iter().collect()), "nth"),
                2 => (track(|| w.by_ref().skip(n).next().into_iter().collect()), "skip+next"),
                3 => (track(|| w.by_ref().step_by(2).take(n).collect()), "step_by(2)+take"),
                _ => (track(|| w.by_ref().take(n).last().into_iter().collect()), "take+last"),
            };
            // the same through the model: which items are delivered, which are stepped over (and
            // therefore destroyed by the consumer's adaptor), where the source stands afterwards
            let mut want = Vec::new();
            match mode {
                0 => {
                    for _ in 0..n {
                        match expect_next(it) { Some(id) => want.push(id), None => break }
                    }
                }
                1 | 2 => {
                    let mut last = None;
                    for k in 0..=n {
                        last = expect_next(it);
                        if last.is_none() { break; }
                        if k < n { last = None; }
                    }
                    want.extend(last);
                }
                3 => {
                    // step_by(2): first item, then every second one; `take(n)` stops pulling after n
                    let mut k = 0;
                    while k < n {
                        let x = if k == 0 { expect_next(it) } else { match expect_next(it) { Some(_) => expect_next(it), None => None } };
                        match x { Some(id) => want.push(id), None => break }
                        k += 1;
                    }
                }
                _ => {
                    let mut last = None;
                    for _ in 0..n {
                        match expect_next(it) { Some(id) => last = Some(id), None => break }
                    }
                    want.extend(last);
                }
            }
            let g: Vec<u32> = got.iter().map(|t| t.id).collect();
            vcheck!(g == want, "iter.sequence_mismatch", how, "{}({}) through the wrapper gave {:?}, expected {:?}", how, n, g, want);
            drop(got);
            Ok(format!("ITake {} {} -> {:?}", how, n, want))
        }
        "IUnwrap" => match it.wrapper.take() {
            Some(w) => {
                track(|| drop(w));
                if it.read < it.ids.len() {
                    counts.push("fault.early_drop_wrapper");
                }
                Ok("IUnwrap".into())
            }
            None => Ok("IUnwrap noop".into()),
        },
        _ => Ok(format!("unknown-op {}", step.op)),
    }
}

fn check(st: &State, when: &str) -> VResult {
    // everything not yet read is alive inside the source; everything read was dropped by the harness
    let live: Vec<u32> = match &st.it {
        Some(it) => {
            let inside: Vec<u32> = it.src.items.iter().map(|t| t.id).collect();
            let want: Vec<u32> = it.ids[it.read..].to_vec();
            vcheck!(inside == want, "iter.source_overdrawn", "source", "{}: the source still holds {:?} but {:?} have not been yielded yet (the wrapper consumed or dropped items nobody received)", when, inside, want);
            inside
        }
        None => Vec::new(),
    };
    reg_check(st, &live, when)?;
    simcore::check_alloc("feed")
}

fn state_hash(st: &State) -> u64 {
    let mut h = Fnv::new();
    match &st.it {
        None => h.u64(0xff),
        Some(it) => {
            h.u64(it.ids.len() as u64);
            h.u64(it.read as u64);
            h.u64(it.wrapper.is_some() as u64);
            h.u64(it.src.gave_none as u64);
            h.u64(it.none_pending as u64);
        }
    }
    h.0
}

const OPS: [&str; 7] = ["Feed", "ISrc", "IWrap", "INext", "IDirect", "ITake", "IUnwrap"];

impl Engine for FeedEngine {
    fn name(&self) -> &'static str {
        "feed"
    }

    fn gen(&self, rng: &mut Rng, _thorough: bool) -> Plan {
        let mut p = Plan::new("feed");
        let threads = rng.range(1, 3);
        p.set("threads", threads);
        p.set("end_code", rng.range(0, 4));
        let max_steps = if rng.chance(1, 2) { rng.range(2, 8) } else { rng.range(8, 30) };
        let mut w: Vec<u32> = vec![10, 4, 6, 14, 5, 3, 3];
        if rng.chance(1, 4) {
            w[0] = 0;
        }
        if rng.chance(1, 4) {
            for x in w.iter_mut().skip(1) {
                *x = 0;
            }
            w[0] = 10;
        }
        let c_party = rng.chance(1, 2) || simcore::force_c_party();
        let nonfused = rng.chance(1, 2);
        for _ in 0..max_steps {
            let t = rng.below(threads as u64) as u8;
            let op = OPS[rng.weighted(&w)];
            match op {
                "Feed" => {
                    let len = rng.range(0, 8);
                    let none_at = if nonfused && rng.chance(1, 3) { rng.range(0, len.max(1) - 0) } else { -1 };
                    let sink = rng.range(0, 3);
                    let stop = match rng.below(5) {
                        0 => -1,
                        1 => 0,
                        2 => len - 1,
                        _ => rng.range(-1, len),
                    };
                    let via = if c_party && rng.chance(1, 4) { 4 } else { rng.range(0, 3) };
                    p.push(t, op, &[len, none_at, sink, stop, via, rng.range(0, 7)]);
                }
                "ISrc" => {
                    let len = rng.range(0, 8);
                    let none_at = if nonfused && rng.chance(1, 2) { rng.range(0, len.max(1)) } else { -1 };
                    p.push(t, op, &[len, none_at]);
                }
                "IWrap" => p.push(t, op, &[rng.range(0, 3)]),
                "INext" => p.push(t, op, &[if c_party && rng.chance(1, 3) { 1 } else { 0 }]),
                "ITake" => p.push(t, op, &[rng.range(0, 6), rng.range(0, 4)]),
                _ => p.push(t, op, &[]),
            }
        }
        p
    }

    fn exec(&self, plan: &Plan, ctx: &mut RunCtx) -> VResult {
        vcheck!(crate::cview::same_size::<OpaqueCallback<Tok>, CallbackView<Tok>>() && crate::cview::same_size::<CIterator<Tok>, IterView<Tok>>(),
            "feed.layout", "size", "OpaqueCallback / CIterator no longer have the published 2-word layout");
        END_CODE.store(*[1, 2, -1, i32::MIN, 7].get(plan.cfg("end_code", 0).rem_euclid(5) as usize).unwrap(), Ordering::Relaxed);
        let mut st = State { reg: Reg::new(), next_id: 0, it: None };
        let mut result: VResult = Ok(());
        for (i, step) in plan.steps.iter().enumerate() {
            ctx.cur_step = i as i64;
            simcore::alloc::set_step(i as i64);
            if st.next_id > 3800 {
                break;
            }
            let mut counts: Vec<&'static str> = Vec::new();
            let stp = SendMut(&mut st as *mut State);
            let r = ctx.baton.on(step.t, || {
                let stp = stp;
                let st = unsafe { &mut *stp.0 };
                match step.op.as_str() {
                    "Feed" => feed_step(st, step, &mut counts),
                    "ISrc" => iter_src(st, step, &mut counts),
                    _ => iter_op(st, step, &mut counts),
                }
            });
            if step.t != 0 {
                ctx.count("fault.cross_thread_op");
            }
            for c in counts {
                ctx.count(c);
            }
            let line = match r {
                Ok(l) => l,
                Err(mut v) => {
                    v.step = i as i64;
                    result = Err(v);
                    break;
                }
            };
            if !line.contains("noop") {
                ctx.count(&format!("op.{}", step.op));
                ctx.effective(true);
            }
            ctx.log(&format!("s{} t{} {}", i, step.t, line));
            if let Err(mut v) = check(&st, &format!("after step {} ({})", i, step.text())) {
                v.step = i as i64;
                result = Err(v);
                break;
            }
            ctx.reach(state_hash(&st), plan.steps.get(i + 1).map(|s| s.op.as_str()));
        }
        if result.is_err() {
            std::mem::forget(st);
            return result;
        }
        ctx.cur_step = -1;
        simcore::alloc::set_step(-1);
        if let Some(it) = st.it.take() {
            track(|| drop(it.wrapper));
            drop(it.src);
        }
        reg_check(&st, &[], "at quiescence")?;
        simcore::check_alloc("feed")?;
        simcore::check_no_leak("feed")
    }
}

struct SendMut<T>(*mut T);
unsafe impl<T> Send for SendMut<T> {}
impl<T> Clone for SendMut<T> {
    fn clone(&self) -> Self {
        SendMut(self.0)
    }
}
impl<T> Copy for SendMut<T> {}

#[allow(dead_code)]
fn _keep(_: Ordering) {}
