//! C10 (+C16 for the arc layout): CArc / CArcSome against a counting model.
//!
//! Baton mode: one shared pool, op-level interleaving decided by the plan, oracles after every
//! step. Free mode (`--free`, used under Miri): every logical thread owns a private pool seeded
//! with clones of the shared allocations and runs its steps unsynchronised; oracles at the end.

use crate::cview::{self, ArcView};
use cglue::arc::{CArc, CArcSome};
use cglue::trait_group::Opaquable;
use simcore::alloc::track;
use simcore::{vcheck, vfail, Engine, Fnv, Plan, Rng, RunCtx, Step, VResult, Violation};
use std::collections::BTreeMap;
use cglue::trait_group::c_void as gvoid;
use std::ffi::c_void;
use std::sync::atomic::{AtomicI64, AtomicU32, Ordering};
use std::sync::{Arc, Mutex, Weak};

pub struct ArcEngine;

const MAX_ALLOCS: usize = 128;

struct Registry {
    drops: Vec<AtomicU32>,
}

/// The shared value. Carries identity and a destructor that is logged.
pub struct P {
    alloc: u32,
    val: u64,
    reg: Arc<Registry>,
}

impl Drop for P {
    fn drop(&mut self) {
        self.reg.drops[self.alloc as usize].fetch_add(1, Ordering::SeqCst);
    }
}

/// An allocation made by the simulated *other module*: not a std Arc. Its clone/drop functions
/// keep their own books; every Rust-side clone/drop/take must show up there.
#[repr(C)]
struct ForeignBlock {
    payload: std::mem::ManuallyDrop<P>, // at offset 0: `instance` points here
    count: AtomicI64,
    clone_calls: AtomicU32,
    drop_calls: AtomicU32,
    underflow: AtomicU32,
    /// "handle table" policy: every handle has its own record (its own instance pointer, all of
    /// them dereference to the same value); a record is released exactly once
    nodes: Vec<Node>,
    next_node: AtomicU32,
    stale: AtomicU32,
    /// a static / uncounted object of the foreign module: handles carry `drop_fn = NULL` (nothing
    /// to release, as the generated C helpers also allow); the object is never destroyed
    no_drop: bool,
}

#[repr(C)]
struct Node {
    payload: std::mem::ManuallyDrop<P>, // at offset 0; a bit copy, never dropped
    block: *const ForeignBlock,
    live: AtomicU32,
}
unsafe impl Send for Node {}
unsafe impl Sync for Node {}

const NODES: usize = 256;

unsafe extern "C" fn foreign_clone_ph(p: *const c_void) -> *const c_void {
    let n = &*(p as *const Node);
    let b = &*n.block;
    b.clone_calls.fetch_add(1, Ordering::SeqCst);
    if n.live.load(Ordering::SeqCst) == 0 {
        b.stale.fetch_add(1, Ordering::SeqCst);
    }
    b.count.fetch_add(1, Ordering::SeqCst);
    let i = b.next_node.fetch_add(1, Ordering::SeqCst) as usize % NODES;
    let m = &b.nodes[i];
    m.live.store(1, Ordering::SeqCst);
    m as *const Node as *const c_void
}

unsafe extern "C" fn foreign_drop_ph(p: *const c_void) {
    let n = &*(p as *const Node);
    let b = &*n.block;
    b.drop_calls.fetch_add(1, Ordering::SeqCst);
    if n.live.swap(0, Ordering::SeqCst) == 0 {
        // this handle's record was released before
        b.stale.fetch_add(1, Ordering::SeqCst);
    }
    let prev = b.count.fetch_sub(1, Ordering::SeqCst);
    if prev <= 0 {
        b.underflow.fetch_add(1, Ordering::SeqCst);
    } else if prev == 1 {
        let bm = n.block as *mut ForeignBlock;
        std::mem::ManuallyDrop::drop(&mut (*bm).payload);
    }
}

unsafe extern "C" fn foreign_clone(p: *const c_void) -> *const c_void {
    let b = &*(p as *const ForeignBlock);
    b.clone_calls.fetch_add(1, Ordering::SeqCst);
    b.count.fetch_add(1, Ordering::SeqCst);
    p
}

unsafe extern "C" fn foreign_drop(p: *const c_void) {
    let b = &*(p as *const ForeignBlock);
    b.drop_calls.fetch_add(1, Ordering::SeqCst);
    let prev = b.count.fetch_sub(1, Ordering::SeqCst);
    if prev <= 0 {
        b.underflow.fetch_add(1, Ordering::SeqCst);
    } else if prev == 1 {
        // last handle: destroy the payload (the block's memory stays with the harness)
        let bm = p as *mut ForeignBlock;
        std::mem::ManuallyDrop::drop(&mut (*bm).payload);
    }
}

enum AllocKind {
    Std(Weak<P>),
    Foreign(Box<ForeignBlock>),
}

struct AllocRec {
    kind: AllocKind,
    model: i64,
}

#[derive(Clone, Copy, PartialEq, Eq, Debug)]
enum K {
    CArc,
    Some,
    Opt,
    OCArc,
    OSome,
    Std,
}

enum H {
    CArc(CArc<P>),
    Some(CArcSome<P>),
    Opt(Option<CArcSome<P>>),
    OCArc(CArc<gvoid>),
    OSome(CArcSome<gvoid>),
    Std(Arc<P>),
}

impl H {
    fn k(&self) -> K {
        match self {
            H::CArc(_) => K::CArc,
            H::Some(_) => K::Some,
            H::Opt(_) => K::Opt,
            H::OCArc(_) => K::OCArc,
            H::OSome(_) => K::OSome,
            H::Std(_) => K::Std,
        }
    }
}

struct Slot {
    h: H,
    /// model: which allocation this handle refers to (None = empty CArc / None option)
    alloc: Option<u32>,
}

struct Pool {
    slots: Vec<Option<Slot>>,
}

struct State {
    pools: Vec<Pool>,
    allocs: Mutex<BTreeMap<u32, AllocRec>>,
    reg: Arc<Registry>,
    free: bool,
}

/// When the foreign module goes away (after the run was judged) it takes its static objects with
/// it: nothing in the library under test was ever to release them.
impl Drop for ForeignBlock {
    fn drop(&mut self) {
        if self.no_drop {
            unsafe { std::mem::ManuallyDrop::drop(&mut self.payload) };
        }
    }
}

fn mk_payload(st: &State, id: u32) -> P {
    P { alloc: id, val: 0xABCD_0000 + id as u64, reg: st.reg.clone() }
}

impl State {
    fn register_std(&self, id: u32, w: Weak<P>, model: i64) {
        self.allocs.lock().unwrap().insert(id, AllocRec { kind: AllocKind::Std(w), model });
    }
    fn delta(&self, id: Option<u32>, d: i64) {
        if self.free {
            return;
        }
        if let Some(id) = id {
            if let Some(a) = self.allocs.lock().unwrap().get_mut(&id) {
                a.model += d;
            }
        }
    }
    fn new_foreign(&self, id: u32) -> ArcView {
        let per_handle = id % 3 == 1;
        let no_drop = id % 3 == 2;
        let mut b = Box::new(ForeignBlock {
            no_drop,
            payload: std::mem::ManuallyDrop::new(mk_payload(self, id)),
            count: AtomicI64::new(1),
            clone_calls: AtomicU32::new(0),
            drop_calls: AtomicU32::new(0),
            underflow: AtomicU32::new(0),
            nodes: Vec::new(),
            next_node: AtomicU32::new(1),
            stale: AtomicU32::new(0),
        });
        let bp = &*b as *const ForeignBlock;
        let view = if per_handle {
            let nodes: Vec<Node> = (0..NODES)
                .map(|i| Node { payload: unsafe { std::ptr::read(&b.payload) }, block: bp, live: AtomicU32::new((i == 0) as u32) })
                .collect();
            b.nodes = nodes;
            ArcView { instance: &b.nodes[0] as *const Node as *const c_void, clone_fn: Some(foreign_clone_ph), drop_fn: Some(foreign_drop_ph) }
        } else {
            ArcView { instance: bp as *const c_void, clone_fn: Some(foreign_clone), drop_fn: if no_drop { None } else { Some(foreign_drop) } }
        };
        self.allocs.lock().unwrap().insert(id, AllocRec { kind: AllocKind::Foreign(b), model: 1 });
        view
    }
}

unsafe fn payload_id_of(instance: *const c_void) -> u32 {
    (*(instance as *const P)).alloc
}

fn site(op: &str, k: K, party: i64) -> String {
    format!("{}:{:?}:{}", op, k, if party == 1 { "C" } else { "Rust" })
}

/// Executes one op on `pool`. Returns a log line (no addresses).
fn apply(st: &State, pool: &mut Pool, idx: usize, step: &Step, ctx_counts: &mut Vec<&'static str>) -> Result<String, Violation> {
    let n = pool.slots.len() as i64;
    let sl = |v: i64| -> usize { (v.rem_euclid(n)) as usize };
    let id = idx as u32;
    match step.op.as_str() {
        "New" => {
            let kind = step.arg(0);
            let s = sl(step.arg(1));
            if pool.slots[s].is_some() {
                return Ok("New noop(occupied)".into());
            }
            let slot = match kind.rem_euclid(10) {
                0 => {
                    let p = mk_payload(st, id);
                    let arc = Arc::new(p);
                    st.register_std(id, Arc::downgrade(&arc), 1);
                    // CArc::from(T) allocates its own Arc; we need the Weak, so go through Arc
                    let h = track(|| CArc::from(arc));
                    Slot { h: H::CArc(h), alloc: Some(id) }
                }
                1 => {
                    let p = mk_payload(st, id);
                    let h = track(|| CArcSome::from(p));
                    // obtain a Weak without disturbing the count: clone → into_arc → downgrade → drop
                    let tmp = unsafe { track(|| h.clone().into_arc()) };
                    st.register_std(id, Arc::downgrade(&tmp), 1);
                    drop(tmp);
                    Slot { h: H::Some(h), alloc: Some(id) }
                }
                2 => {
                    let p = mk_payload(st, id);
                    let h = track(|| CArc::from(p));
                    let tmp: Option<CArcSome<P>> = track(|| h.clone().transpose());
                    let tmp = unsafe { tmp.expect("CArc::from(value) is empty").into_arc() };
                    st.register_std(id, Arc::downgrade(&tmp), 1);
                    drop(tmp);
                    Slot { h: H::CArc(h), alloc: Some(id) }
                }
                3 => {
                    let arc = Arc::new(mk_payload(st, id));
                    st.register_std(id, Arc::downgrade(&arc), 1);
                    Slot { h: H::Some(track(|| CArcSome::from(arc))), alloc: Some(id) }
                }
                4 => {
                    let arc = Arc::new(mk_payload(st, id));
                    st.register_std(id, Arc::downgrade(&arc), 1);
                    Slot { h: H::CArc(track(|| CArc::from(Some(arc)))), alloc: Some(id) }
                }
                5 => Slot { h: H::CArc(track(|| CArc::from(None::<Arc<P>>))), alloc: None },
                6 => Slot { h: H::CArc(track(CArc::default)), alloc: None },
                7 => {
                    let v = st.new_foreign(id);
                    ctx_counts.push("fault.foreign_module");
                    Slot { h: H::CArc(unsafe { cview::view::<ArcView, CArc<P>>(v) }), alloc: Some(id) }
                }
                8 => {
                    let v = st.new_foreign(id);
                    ctx_counts.push("fault.foreign_module");
                    Slot { h: H::Some(unsafe { cview::view::<ArcView, CArcSome<P>>(v) }), alloc: Some(id) }
                }
                _ => {
                    let arc = Arc::new(mk_payload(st, id));
                    st.register_std(id, Arc::downgrade(&arc), 1);
                    Slot { h: H::Std(arc), alloc: Some(id) }
                }
            };
            let line = format!("New kind={} slot={} -> {:?} alloc={:?}", kind.rem_euclid(10), s, slot.h.k(), slot.alloc);
            pool.slots[s] = Some(slot);
            Ok(line)
        }
        "Clone" => {
            let (a, b, party) = (sl(step.arg(0)), sl(step.arg(1)), step.arg(2) & 1);
            if a == b || pool.slots[a].is_none() || pool.slots[b].is_some() {
                return Ok("Clone noop".into());
            }
            let src = pool.slots[a].as_ref().unwrap();
            let k = src.h.k();
            let alloc = src.alloc;
            let use_c = party == 1 && alloc.is_some() && k != K::Std && k != K::Opt;
            let h = if use_c {
                ctx_counts.push("party.c");
                unsafe {
                    match &src.h {
                        H::CArc(x) => {
                            let v: ArcView = std::ptr::read(x as *const _ as *const ArcView);
                            H::CArc(cview::view(track(|| v.c_clone())))
                        }
                        H::Some(x) => {
                            let v: ArcView = std::ptr::read(x as *const _ as *const ArcView);
                            H::Some(cview::view(track(|| v.c_clone())))
                        }
                        H::OCArc(x) => {
                            let v: ArcView = std::ptr::read(x as *const _ as *const ArcView);
                            H::OCArc(cview::view(track(|| v.c_clone())))
                        }
                        H::OSome(x) => {
                            let v: ArcView = std::ptr::read(x as *const _ as *const ArcView);
                            H::OSome(cview::view(track(|| v.c_clone())))
                        }
                        _ => unreachable!(),
                    }
                }
            } else {
                track(|| match &src.h {
                    H::CArc(x) => H::CArc(x.clone()),
                    H::Some(x) => H::Some(x.clone()),
                    H::Opt(x) => H::Opt(x.clone()),
                    H::OCArc(x) => H::OCArc(x.clone()),
                    H::OSome(x) => H::OSome(x.clone()),
                    H::Std(x) => H::Std(x.clone()),
                })
            };
            if alloc.is_none() {
                ctx_counts.push("probe.clone_of_empty");
                // an empty CArc clones to empty
                let empty = match &h {
                    H::CArc(x) => x.as_ref().is_none(),
                    H::OCArc(x) => x.as_ref().is_none(),
                    H::Opt(x) => x.is_none(),
                    _ => false,
                };
                vcheck!(empty, "arc.clone_of_empty_not_empty", &site("Clone", k, party), "clone of an empty handle is not empty");
            }
            st.delta(alloc, 1);
            pool.slots[b] = Some(Slot { h, alloc });
            Ok(format!("Clone {}->{} {:?} party={} alloc={:?}", a, b, k, if use_c { "C" } else { "Rust" }, alloc))
        }
        "Take" => {
            let (a, b) = (sl(step.arg(0)), sl(step.arg(1)));
            if a == b || pool.slots[a].is_none() || pool.slots[b].is_some() {
                return Ok("Take noop".into());
            }
            let src = pool.slots[a].as_mut().unwrap();
            let alloc = src.alloc;
            let taken = match &mut src.h {
                H::CArc(x) => {
                    let t = track(|| x.take());
                    vcheck!(x.as_ref().is_none(), "arc.take_left_nonempty", "Take:CArc", "source not empty after take()");
                    H::CArc(t)
                }
                H::OCArc(x) => {
                    let t = track(|| x.take());
                    vcheck!(x.as_ref().is_none(), "arc.take_left_nonempty", "Take:OCArc", "source not empty after take()");
                    H::OCArc(t)
                }
                _ => return Ok("Take noop(kind)".into()),
            };
            src.alloc = None;
            if alloc.is_some() {
                ctx_counts.push("probe.take_of_nonempty");
            }
            pool.slots[b] = Some(Slot { h: taken, alloc });
            Ok(format!("Take {}->{} alloc={:?}", a, b, alloc))
        }
        "ToOpt" => {
            let a = sl(step.arg(0));
            let Some(slot) = pool.slots[a].take() else { return Ok("ToOpt noop".into()) };
            let alloc = slot.alloc;
            match slot.h {
                H::CArc(x) => {
                    let o: Option<CArcSome<P>> = track(|| x.transpose());
                    vcheck!(o.is_some() == alloc.is_some(), "arc.transpose_variant", "ToOpt:CArc", "transpose of {} CArc gave {}", if alloc.is_some() { "non-empty" } else { "empty" }, if o.is_some() { "Some" } else { "None" });
                    pool.slots[a] = Some(Slot { h: H::Opt(o), alloc });
                    Ok(format!("ToOpt {} alloc={:?}", a, alloc))
                }
                other => {
                    pool.slots[a] = Some(Slot { h: other, alloc });
                    Ok("ToOpt noop(kind)".into())
                }
            }
        }
        "ToCArc" => {
            let a = sl(step.arg(0));
            let Some(slot) = pool.slots[a].take() else { return Ok("ToCArc noop".into()) };
            let alloc = slot.alloc;
            let h = match slot.h {
                H::Some(x) => H::CArc(track(|| x.transpose())),
                H::Opt(x) => H::CArc(track(|| CArc::from(x))),
                H::Std(x) => {
                    // wrap an existing, possibly shared, std Arc
                    match step.arg(1).rem_euclid(3) {
                        0 => H::CArc(track(|| CArc::from(x))),
                        1 => H::Some(track(|| CArcSome::from(x))),
                        _ => H::CArc(track(|| CArc::from(Some(x)))),
                    }
                }
                other => {
                    pool.slots[a] = Some(Slot { h: other, alloc });
                    return Ok("ToCArc noop(kind)".into());
                }
            };
            if let H::CArc(x) = &h {
                vcheck!(x.as_ref().is_some() == alloc.is_some(), "arc.transpose_variant", "ToCArc", "conversion to CArc changed emptiness");
            }
            let k = h.k();
            pool.slots[a] = Some(Slot { h, alloc });
            Ok(format!("ToCArc {} -> {:?} alloc={:?}", a, k, alloc))
        }
        "Opaque" => {
            let a = sl(step.arg(0));
            let Some(slot) = pool.slots[a].take() else { return Ok("Opaque noop".into()) };
            let alloc = slot.alloc;
            let h = match slot.h {
                H::CArc(x) => H::OCArc(track(|| x.into_opaque())),
                H::Some(x) => H::OSome(track(|| x.into_opaque())),
                // back from opaque: what the receiving module does with a handle it knows the type of
                H::OCArc(x) => H::CArc(unsafe { std::mem::transmute::<CArc<gvoid>, CArc<P>>(x) }),
                H::OSome(x) => H::Some(unsafe { std::mem::transmute::<CArcSome<gvoid>, CArcSome<P>>(x) }),
                other => other,
            };
            let k = h.k();
            pool.slots[a] = Some(Slot { h, alloc });
            Ok(format!("Opaque {} -> {:?}", a, k))
        }
        "IntoArc" => {
            let a = sl(step.arg(0));
            let Some(slot) = pool.slots[a].take() else { return Ok("IntoArc noop".into()) };
            let alloc = slot.alloc;
            let is_std = alloc
                .map(|id| matches!(st.allocs.lock().unwrap().get(&id).map(|r| &r.kind), Some(AllocKind::Std(_))))
                .unwrap_or(false);
            match slot.h {
                H::Some(x) if is_std => {
                    let arc = unsafe { track(|| x.into_arc()) };
                    pool.slots[a] = Some(Slot { h: H::Std(arc), alloc });
                    Ok(format!("IntoArc {} alloc={:?}", a, alloc))
                }
                other => {
                    pool.slots[a] = Some(Slot { h: other, alloc });
                    Ok("IntoArc noop(kind)".into())
                }
            }
        }
        "Deref" => {
            let (a, party) = (sl(step.arg(0)), step.arg(1) & 1);
            let Some(slot) = pool.slots[a].as_ref() else { return Ok("Deref noop".into()) };
            let k = slot.h.k();
            let seen: Option<u32> = unsafe {
                match &slot.h {
                    H::CArc(x) => {
                        if party == 1 {
                            let v: ArcView = std::ptr::read(x as *const _ as *const ArcView);
                            if v.instance.is_null() { None } else { Some(payload_id_of(v.instance)) }
                        } else {
                            x.as_ref().map(|p| p.alloc)
                        }
                    }
                    H::Some(x) => {
                        if party == 1 {
                            let v: ArcView = std::ptr::read(x as *const _ as *const ArcView);
                            Some(payload_id_of(v.instance))
                        } else {
                            let r: &P = x;
                            let r2: &P = x.as_ref();
                            vcheck!(std::ptr::eq(r, r2), "arc.deref_mismatch", "Deref:Some", "Deref and AsRef disagree");
                            Some(r.alloc)
                        }
                    }
                    H::Opt(x) => x.as_ref().map(|s| s.alloc),
                    H::OCArc(x) => {
                        let v: ArcView = std::ptr::read(x as *const _ as *const ArcView);
                        if v.instance.is_null() { None } else { Some(payload_id_of(v.instance)) }
                    }
                    H::OSome(x) => {
                        let v: ArcView = std::ptr::read(x as *const _ as *const ArcView);
                        Some(payload_id_of(v.instance))
                    }
                    H::Std(x) => Some(x.alloc),
                }
            };
            vcheck!(seen == slot.alloc, "arc.deref_wrong_value", &site("Deref", k, party), "handle dereferences to payload {:?}, model says {:?}", seen, slot.alloc);
            if let (Some(id), H::Some(x)) = (slot.alloc, &slot.h) {
                vcheck!(x.val == 0xABCD_0000 + id as u64, "arc.deref_wrong_value", &site("Deref", k, party), "payload value corrupted");
            }
            Ok(format!("Deref {} {:?} -> {:?}", a, k, seen))
        }
        "Drop" => {
            let (a, party) = (sl(step.arg(0)), step.arg(1) & 1);
            let Some(slot) = pool.slots[a].take() else { return Ok("Drop noop".into()) };
            let k = slot.h.k();
            let alloc = slot.alloc;
            if alloc.is_none() {
                ctx_counts.push("probe.drop_of_empty");
            }
            let use_c = party == 1 && k != K::Std && k != K::Opt;
            if use_c {
                ctx_counts.push("party.c");
                unsafe {
                    let v: ArcView = match slot.h {
                        H::CArc(x) => cview::view(x),
                        H::Some(x) => cview::view(x),
                        H::OCArc(x) => cview::view(x),
                        H::OSome(x) => cview::view(x),
                        _ => unreachable!(),
                    };
                    track(|| v.c_drop());
                }
            } else {
                track(|| drop(slot.h));
            }
            st.delta(alloc, -1);
            Ok(format!("Drop {} {:?} party={} alloc={:?}", a, k, if use_c { "C" } else { "Rust" }, alloc))
        }
        _ => Ok(format!("unknown-op {}", step.op)),
    }
}

fn check_invariants(st: &State, when: &str) -> VResult {
    let allocs = st.allocs.lock().unwrap();
    for (id, a) in allocs.iter() {
        let drops = st.reg.drops[*id as usize].load(Ordering::SeqCst);
        match &a.kind {
            AllocKind::Std(w) => {
                let sc = w.strong_count() as i64;
                vcheck!(sc == a.model, "arc.count_mismatch", "std", "{}: allocation {} strong_count={} but {} live handle(s) in the model", when, id, sc, a.model);
            }
            AllocKind::Foreign(b) if b.no_drop => {
                vcheck!(b.drop_calls.load(Ordering::SeqCst) == 0, "arc.foreign_books", "foreign", "{}: the foreign module's drop function was called for its static object {} whose handles carry no drop function", when, id);
                vcheck!(drops == 0, "arc.payload_drop", "payload", "{}: the foreign module's static object {} was destroyed", when, id);
                continue;
            }
            AllocKind::Foreign(b) => {
                let c = b.count.load(Ordering::SeqCst);
                vcheck!(b.underflow.load(Ordering::SeqCst) == 0, "arc.foreign_books", "foreign", "{}: foreign drop_fn called on allocation {} with no handle left", when, id);
                vcheck!(c == a.model, "arc.foreign_books", "foreign", "{}: foreign allocation {}: module's own count={} but {} live handle(s) in the model (clone_fn calls={}, drop_fn calls={})", when, id, c, a.model, b.clone_calls.load(Ordering::SeqCst), b.drop_calls.load(Ordering::SeqCst));
                vcheck!(b.stale.load(Ordering::SeqCst) == 0, "arc.foreign_books", "foreign", "{}: foreign allocation {}: clone_fn/drop_fn was handed a handle record that had been released before (the instance pointer returned by clone_fn belongs to the new handle)", when, id);
                if !b.nodes.is_empty() {
                    let live = b.nodes.iter().filter(|n| n.live.load(Ordering::SeqCst) != 0).count() as i64;
                    vcheck!(live == a.model, "arc.foreign_books", "foreign", "{}: foreign allocation {}: {} handle record(s) live in the module, {} live handle(s) in the model", when, id, live, a.model);
                }
            }
        }
        let want = if a.model == 0 { 1 } else { 0 };
        vcheck!(drops == want, "arc.payload_drop", "payload", "{}: allocation {} has {} live handle(s), payload destructor ran {} time(s)", when, id, a.model, drops);
    }
    Ok(())
}

fn state_hash(st: &State) -> u64 {
    let mut h = Fnv::new();
    let allocs = st.allocs.lock().unwrap();
    let mut counts: Vec<(bool, i64)> = allocs.values().map(|a| (matches!(a.kind, AllocKind::Foreign(_)), a.model)).collect();
    counts.sort();
    for (f, c) in counts {
        h.u64(f as u64);
        h.i64(c);
    }
    let mut kinds: Vec<u8> = st.pools[0]
        .slots
        .iter()
        .map(|s| match s {
            None => 0,
            Some(s) => 1 + s.h.k() as u8 + if s.alloc.is_none() { 16 } else { 0 },
        })
        .collect();
    kinds.sort();
    h.bytes(&kinds);
    h.0
}

const OPS: [&str; 9] = ["New", "Clone", "Take", "ToOpt", "ToCArc", "Opaque", "IntoArc", "Deref", "Drop"];

impl Engine for ArcEngine {
    fn name(&self) -> &'static str {
        "arc"
    }

    fn gen(&self, rng: &mut Rng, thorough: bool) -> Plan {
        let mut p = Plan::new("arc");
        let pool = rng.range(2, 8);
        let threads = rng.range(1, 4);
        let max_steps = if rng.chance(2, 3) { rng.range(3, 12) } else { rng.range(12, if thorough { 60 } else { 40 }) };
        p.set("pool", pool);
        p.set("threads", threads);
        p.set("shared", rng.range(0, 2));
        // (free-running mode only) rounds of the contention phase all threads start with
        p.set("hammer", if rng.chance(1, 3) { rng.range(50, 1500) } else { 0 });
        // swarm: each op kind is switched off in a subset of runs
        let mut w: Vec<u32> = vec![10, 14, 6, 5, 6, 5, 4, 6, 12];
        for i in 1..w.len() {
            if rng.chance(1, 5) {
                w[i] = 0;
            }
        }
        let c_party = rng.chance(1, 2) || simcore::force_c_party();
        let foreign = rng.chance(1, 3);
        let cross_thread = threads > 1;
        // occupancy model of the generator (approximate kinds: 0 empty slot, 1 CArc-like, 2 Some-like,
        // 3 Option, 4 std Arc) so that most generated ops find an operand
        let mut occ: Vec<u8> = vec![0; pool as usize];
        let shared = p.cfg("shared", 0) as usize;
        for i in 0..shared.min(pool as usize) {
            occ[i] = if i % 2 == 0 { 1 } else { 2 };
        }
        let pick_slot = |rng: &mut Rng, occ: &[u8], pred: &dyn Fn(u8) -> bool| -> Option<i64> {
            let c: Vec<usize> = (0..occ.len()).filter(|i| pred(occ[*i])).collect();
            if c.is_empty() { None } else { Some(c[rng.below(c.len() as u64) as usize] as i64) }
        };
        for _ in 0..max_steps {
            let t = if cross_thread { rng.below(threads as u64) as u8 } else { 0 };
            let mut op = OPS[rng.weighted(&w)];
            let party = if c_party && rng.chance(1, 3) { 1 } else { 0 };
            let any_full = occ.iter().any(|k| *k != 0);
            let any_empty = occ.iter().any(|k| *k == 0);
            if !any_full || (op == "New" && !any_empty) {
                op = if any_empty { "New" } else { "Drop" };
            }
            // one step in six keeps the old uniform choice (ill-formed ops are defined no-ops)
            let uniform = rng.chance(1, 6);
            let rs = |rng: &mut Rng| rng.below(pool as u64) as i64;
            match op {
                "New" => {
                    let kind = if foreign && rng.chance(1, 2) { rng.range(7, 8) } else { *rng.pick(&[0, 1, 2, 3, 4, 5, 6, 9, 0, 1, 2, 3]) };
                    let s = if uniform { rs(rng) } else { pick_slot(rng, &occ, &|k| k == 0).unwrap_or(0) };
                    if occ[s as usize] == 0 {
                        occ[s as usize] = match kind { 1 | 3 | 8 => 2, 9 => 4, _ => 1 };
                    }
                    p.push(t, op, &[kind, s]);
                }
                "Clone" | "Take" => {
                    let src = if uniform { rs(rng) } else { pick_slot(rng, &occ, &|k| if op == "Take" { k == 1 } else { k != 0 }).unwrap_or_else(|| rs(rng)) };
                    let dst = if uniform { rs(rng) } else { pick_slot(rng, &occ, &|k| k == 0).unwrap_or_else(|| rs(rng)) };
                    if src != dst && occ[src as usize] != 0 && occ[dst as usize] == 0 && (op == "Clone" || occ[src as usize] == 1) {
                        occ[dst as usize] = occ[src as usize];
                    }
                    if op == "Clone" { p.push(t, op, &[src, dst, party]) } else { p.push(t, op, &[src, dst]) }
                }
                "ToOpt" => {
                    let s = if uniform { rs(rng) } else { pick_slot(rng, &occ, &|k| k == 1).unwrap_or_else(|| rs(rng)) };
                    if occ[s as usize] == 1 { occ[s as usize] = 3; }
                    p.push(t, op, &[s]);
                }
                "ToCArc" => {
                    let s = if uniform { rs(rng) } else { pick_slot(rng, &occ, &|k| k == 2 || k == 3 || k == 4).unwrap_or_else(|| rs(rng)) };
                    let how = rng.range(0, 2);
                    if occ[s as usize] >= 2 { occ[s as usize] = if occ[s as usize] == 4 && how == 1 { 2 } else { 1 }; }
                    p.push(t, op, &[s, how]);
                }
                "IntoArc" => {
                    let s = if uniform { rs(rng) } else { pick_slot(rng, &occ, &|k| k == 2).unwrap_or_else(|| rs(rng)) };
                    if occ[s as usize] == 2 { occ[s as usize] = 4; }
                    p.push(t, op, &[s]);
                }
                "Opaque" => {
                    let s = if uniform { rs(rng) } else { pick_slot(rng, &occ, &|k| k == 1 || k == 2).unwrap_or_else(|| rs(rng)) };
                    p.push(t, op, &[s]);
                }
                "Deref" => {
                    let s = if uniform { rs(rng) } else { pick_slot(rng, &occ, &|k| k != 0).unwrap_or_else(|| rs(rng)) };
                    p.push(t, op, &[s, party]);
                }
                _ => {
                    let s = if uniform { rs(rng) } else { pick_slot(rng, &occ, &|k| k != 0).unwrap_or_else(|| rs(rng)) };
                    occ[s as usize] = 0;
                    p.push(t, "Drop", &[s, party]);
                }
            }
        }
        p
    }

    fn exec(&self, plan: &Plan, ctx: &mut RunCtx) -> VResult {
        let npool = plan.cfg("pool", 4).clamp(1, 16) as usize;
        let threads = plan.cfg("threads", 1).clamp(1, 4) as usize;
        let shared = plan.cfg("shared", 0).clamp(0, 4) as usize;
        vcheck!(plan.steps.len() + shared + 4 < MAX_ALLOCS, "harness.bounds", "arc", "plan too long");
        let reg = Arc::new(Registry { drops: (0..MAX_ALLOCS).map(|_| AtomicU32::new(0)).collect() });
        let free = ctx.free;
        let npools = if free { threads } else { 1 };
        let mut st = State {
            pools: (0..npools).map(|_| Pool { slots: (0..npool).map(|_| None).collect() }).collect(),
            allocs: Mutex::new(BTreeMap::new()),
            reg,
            free,
        };
        // layout precondition for the C party
        vcheck!(cview::same_size::<CArc<P>, ArcView>() && cview::same_size::<CArcSome<P>, ArcView>() && cview::same_size::<CArc<gvoid>, ArcView>(),
            "arc.layout", "size", "CArc/CArcSome no longer have the published 3-word layout");
        // shared seed allocations: one handle per pool
        for i in 0..shared.min(npool) {
            let id = (plan.steps.len() + i) as u32;
            let arc = Arc::new(mk_payload(&st, id));
            st.register_std(id, Arc::downgrade(&arc), npools as i64);
            for pi in 0..npools {
                let h = if i % 2 == 0 { H::CArc(CArc::from(arc.clone())) } else { H::Some(CArcSome::from(arc.clone())) };
                st.pools[pi].slots[i] = Some(Slot { h, alloc: Some(id) });
            }
        }
        let r = if free { exec_free(plan, ctx, &mut st, threads) } else { exec_baton(plan, ctx, &mut st) };
        if r.is_err() {
            // state may be corrupt: do not run destructors
            std::mem::forget(st);
        }
        r
    }
}

fn exec_baton(plan: &Plan, ctx: &mut RunCtx, st: &mut State) -> VResult {
    let mut pool = std::mem::replace(&mut st.pools[0], Pool { slots: Vec::new() });
    let mut result: VResult = Ok(());
    for (i, step) in plan.steps.iter().enumerate() {
        ctx.cur_step = i as i64;
        simcore::alloc::set_step(i as i64);
        let mut counts: Vec<&'static str> = Vec::new();
        let stref: &State = st;
        let poolref = &mut pool;
        let r = ctx.baton.on(step.t, || apply(stref, poolref, i, step, &mut counts));
        if step.t != 0 {
            ctx.count("fault.cross_thread_op");
        }
        for c in counts {
            ctx.count(c);
        }
        let line = match r {
            Ok(l) => l,
            Err(mut v) => {
                v.step = i as i64;
                result = Err(v);
                break;
            }
        };
        let noop = line.contains("noop");
        if !noop {
            ctx.count(&format!("op.{}", step.op));
            ctx.effective(step.op != "Deref");
        }
        ctx.log(&format!("s{} t{} {}", i, step.t, line));
        st.pools[0] = pool;
        let inv = check_invariants(st, &format!("after step {} ({})", i, step.text()))
            .and_then(|_| simcore::check_alloc("arc"));
        pool = std::mem::replace(&mut st.pools[0], Pool { slots: Vec::new() });
        if let Err(mut v) = inv {
            v.step = i as i64;
            result = Err(v);
            break;
        }
        let sh = {
            st.pools[0] = pool;
            let h = state_hash(st);
            pool = std::mem::replace(&mut st.pools[0], Pool { slots: Vec::new() });
            h
        };
        ctx.reach(sh, plan.steps.get(i + 1).map(|s| s.op.as_str()));
    }
    if result.is_err() {
        std::mem::forget(pool);
        return result;
    }
    // quiescence: release everything that is left (on the executor thread, in slot order)
    ctx.cur_step = -1;
    simcore::alloc::set_step(-1);
    for s in pool.slots.iter_mut() {
        if let Some(slot) = s.take() {
            let alloc = slot.alloc;
            track(|| drop(slot.h));
            st.delta(alloc, -1);
        }
    }
    check_invariants(st, "at quiescence")?;
    simcore::check_alloc("arc")?;
    // every allocation must be gone now
    for (id, a) in st.allocs.lock().unwrap().iter() {
        vcheck!(a.model == 0, "harness.model", "arc", "model count of allocation {} is {} at quiescence", id, a.model);
    }
    st.allocs.lock().unwrap().clear();
    simcore::check_no_leak("arc")?;
    Ok(())
}

/// All threads at once, before their steps: short-lived allocations whose last handle goes away
/// while other threads are inside clone and drop functions too, and clone + drop of this
/// thread's handle to a shared allocation (contention on one count). The value must be destroyed
/// by the time the drop of its last handle returns, whatever the other threads are doing.
fn hammer(st: &State, pool: &Pool, t: usize, k: u32) -> VResult {
    let id = (MAX_ALLOCS - 1 - t) as u32;
    let seen = |n: u32| st.reg.drops[id as usize].load(Ordering::SeqCst) == n;
    let base = st.reg.drops[id as usize].load(Ordering::SeqCst);
    for j in 0..k {
        let a = CArc::from(mk_payload(st, id));
        let b = a.clone();
        drop(a);
        vcheck!(seen(base + j), "arc.payload_drop", "hammer", "thread {}: the shared value was destroyed while one of its two handles was still alive", t);
        let c: CArcSome<P> = b.transpose().expect("non-empty handle transposed to None");
        let d = c.clone();
        drop(c);
        drop(d);
        vcheck!(seen(base + j + 1), "arc.payload_drop", "hammer", "thread {}: the shared value was not destroyed by the time the drop of its last handle returned (destroyed {} time(s) after {} round(s))", t, st.reg.drops[id as usize].load(Ordering::SeqCst) - base, j + 1);
        for s in pool.slots.iter().flatten().take(2) {
            match &s.h {
                H::CArc(x) => drop(x.clone()),
                H::Some(x) => drop(x.clone()),
                _ => {}
            }
        }
    }
    Ok(())
}

/// Free-running mode: each logical thread runs its own steps on its own pool, unsynchronised.
fn exec_free(plan: &Plan, ctx: &mut RunCtx, st: &mut State, threads: usize) -> VResult {
    let pools = std::mem::take(&mut st.pools);
    let stref: &State = st;
    let results: Vec<Result<Pool, Violation>> = std::thread::scope(|sc| {
        let mut hs = Vec::new();
        for (t, mut pool) in pools.into_iter().enumerate() {
            let steps = &plan.steps;
            let hammer_k = plan.cfg("hammer", 0).clamp(0, 5000) as u32;
            hs.push(sc.spawn(move || {
                let stref = SendRef(stref);
                let mut counts = Vec::new();
                // (under Miri every plan starts with a short contention phase: it is the only
                // scheduler here that interleaves the threads' clone and drop functions)
                let hammer_k = if cfg!(miri) { hammer_k.clamp(3, 6) } else { hammer_k };
                if hammer_k > 0 {
                    if let Err(v) = hammer(stref.0, &pool, t, hammer_k) {
                        std::mem::forget(pool);
                        return Err(v);
                    }
                }
                for (i, step) in steps.iter().enumerate() {
                    if (step.t as usize) % threads != t {
                        continue;
                    }
                    match apply(stref.0, &mut pool, i, step, &mut counts) {
                        Ok(_) => {}
                        Err(mut v) => {
                            v.step = i as i64;
                            std::mem::forget(pool);
                            return Err(v);
                        }
                    }
                }
                // release this thread's handles concurrently with the others
                for s in pool.slots.iter_mut() {
                    if let Some(slot) = s.take() {
                        drop(slot.h);
                    }
                }
                Ok(pool)
            }));
        }
        hs.into_iter().map(|h| h.join().expect("free-mode thread panicked")).collect()
    });
    for r in results {
        r?;
    }
    ctx.effective(true);
    ctx.effective(true);
    ctx.log(&format!("free threads={} steps={}", threads, plan.steps.len()));
    // end-of-run oracle: everything released exactly once
    let allocs = st.allocs.lock().unwrap();
    for (id, a) in allocs.iter() {
        let drops = st.reg.drops[*id as usize].load(Ordering::SeqCst);
        match &a.kind {
            AllocKind::Std(w) => {
                vcheck!(w.strong_count() == 0, "arc.count_mismatch", "std", "free mode: allocation {} still has strong_count={} after all handles were released", id, w.strong_count());
            }
            AllocKind::Foreign(b) if b.no_drop => {
                vcheck!(b.drop_calls.load(Ordering::SeqCst) == 0 && drops == 0, "arc.foreign_books", "foreign", "free mode: the foreign module's static object {} was released or destroyed", id);
                continue;
            }
            AllocKind::Foreign(b) => {
                let c = b.count.load(Ordering::SeqCst);
                vcheck!(c == 0 && b.underflow.load(Ordering::SeqCst) == 0, "arc.foreign_books", "foreign", "free mode: foreign allocation {} count={} underflow={}", id, c, b.underflow.load(Ordering::SeqCst));
                vcheck!(b.stale.load(Ordering::SeqCst) == 0 && b.nodes.iter().all(|n| n.live.load(Ordering::SeqCst) == 0), "arc.foreign_books", "foreign", "free mode: foreign allocation {}: handle records released twice or never", id);
            }
        }
        vcheck!(drops == 1, "arc.payload_drop", "payload", "free mode: payload of allocation {} destroyed {} time(s)", id, drops);
    }
    Ok(())
}

struct SendRef<'a>(&'a State);
unsafe impl<'a> Send for SendRef<'a> {}
impl<'a> Clone for SendRef<'a> {
    fn clone(&self) -> Self {
        SendRef(self.0)
    }
}
impl<'a> Copy for SendRef<'a> {}

#[allow(dead_code)]
fn _unused() {
    let _ = vfail_helper;
}
fn vfail_helper() -> VResult {
    vfail!("x", "y", "z");
}
