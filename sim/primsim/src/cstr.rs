//! C14: ReprCString / ReprCStr. The allocator is the seam: simalloc owns placement bookkeeping,
//! the neighbouring bytes (non-zero fill and red zones), layout matching and leak accounting.

use cglue::repr_cstring::{ReprCStr, ReprCString};
use simcore::alloc::{self, track};
use simcore::{vcheck, Engine, Fnv, Plan, Rng, RunCtx, Step, VResult, Violation};
use std::collections::hash_map::DefaultHasher;
use std::ffi::CString;
use std::hash::{Hash, Hasher};

pub struct CStrEngine;

struct Slot {
    v: ReprCString,
    /// what it must read back as: the input up to its first NUL
    model: String,
    made_by: &'static str,
}

struct State {
    slots: Vec<Option<Slot>>,
}

const ALPHABET: [&str; 8] = ["\0", "a", "Z", "0", " ", "é", "€", "😀"];

/// Deterministic input text: a pure function of (shape, len, salt).
pub fn make_input(shape: i64, len: i64, salt: i64) -> String {
    // lengths of 1000 and more are taken as they are (single-byte characters only, so that the
    // byte length is exactly `len`): counters narrower than usize wrap at 255/256 and 65535/65536
    let big = len >= 1000;
    let len = if big { len.min(if cfg!(miri) { 1200 } else { 140_000 }) } else { len.clamp(0, 24) } as usize;
    let mut x = (salt as u64).wrapping_mul(0x9E37_79B9_7F4A_7C15) ^ 0xABCDEF;
    let mut next = move || {
        x ^= x << 13;
        x ^= x >> 7;
        x ^= x << 17;
        x
    };
    let mut chars: Vec<&str> = (0..len).map(|_| ALPHABET[1 + (next() % if big { 4 } else { 7 }) as usize]).collect();
    match shape.rem_euclid(6) {
        0 => chars.clear(),                          // empty
        1 => {}                                      // NUL-free
        2 => chars.push("\0"),                       // NUL-terminated
        3 => {
            // interior NUL
            let pos = if chars.is_empty() { 0 } else { (next() as usize) % (chars.len() + 1) };
            chars.insert(pos, "\0");
            chars.push("x");
        }
        4 => chars.insert(0, "\0"),                  // NUL first
        _ => {
            // several NULs
            chars.push("\0");
            chars.push("b");
            chars.push("\0");
        }
    }
    chars.concat()
}

/// for messages: the first characters and the byte length of long texts
fn brief(s: &str) -> String {
    if s.len() <= 48 {
        format!("{:?}", s)
    } else {
        format!("{:?}... ({} bytes)", s.chars().take(32).collect::<String>(), s.len())
    }
}

fn prefix(s: &str) -> &str {
    match s.find('\0') {
        Some(i) => &s[..i],
        None => s,
    }
}

fn ptr_of(v: &ReprCString) -> *const u8 {
    // repr(transparent) over NonNull<c_char>: the published C type is `char *`
    unsafe { *(v as *const ReprCString as *const *const u8) }
}

fn h<T: Hash>(t: &T) -> u64 {
    let mut s = DefaultHasher::new();
    t.hash(&mut s);
    s.finish()
}

fn check_value(i: usize, s: &Slot, when: &str) -> VResult {
    let site = s.made_by;
    if !cfg!(miri) {
        let p = ptr_of(&s.v);
        match alloc::block_at(p) {
            Some(b) => {
                vcheck!(b.live, "cstr.buffer_not_owned", site, "{}: slot {} points into a freed block", when, i);
                vcheck!(b.size >= s.model.len() + 1, "cstr.buffer_too_small", site, "{}: slot {} (made by {}): buffer is {} bytes, too small for the {}-byte prefix plus its terminator", when, i, s.made_by, b.size, s.model.len());
                let term = unsafe { *p.add(s.model.len()) };
                vcheck!(term == 0, "cstr.unterminated", site, "{}: byte after the prefix is {:#x}, not NUL", when, term);
            }
            None => {
                return Err(Violation::new("cstr.buffer_not_owned", site, format!("{}: slot {} (made by {}) does not point at the start of an allocation made on its behalf", when, i, s.made_by)));
            }
        }
    }
    let got: &str = s.v.as_ref();
    vcheck!(got == s.model, "cstr.readback_mismatch", site, "{}: slot {} (made by {}) reads back {}, the input prefix is {}", when, i, s.made_by, brief(&String::from_utf8_lossy(got.as_bytes())), brief(&s.model));
    let d: &str = &s.v;
    vcheck!(d == s.model, "cstr.readback_mismatch", site, "{}: Deref disagrees with the model", when);
    Ok(())
}

fn check_all(st: &State, when: &str) -> VResult {
    let mut live = 0;
    for (i, s) in st.slots.iter().enumerate() {
        if let Some(s) = s {
            live += 1;
            check_value(i, s, when)?;
        }
    }
    simcore::check_alloc("cstr")?;
    if !cfg!(miri) {
        let blocks = alloc::live_blocks();
        vcheck!(blocks.len() == live, "cstr.alloc_balance", "blocks", "{}: {} live ReprCString value(s) but {} live block(s) allocated on their behalf: {:?}", when, live, blocks.len(),
            blocks.iter().take(6).map(|b| format!("#{} size={} align={} step={}", b.id, b.size, b.align, b.step)).collect::<Vec<_>>());
    }
    Ok(())
}

fn apply(st: &mut State, step: &Step, counts: &mut Vec<&'static str>) -> Result<String, Violation> {
    let n = st.slots.len() as i64;
    let sl = |v: i64| -> usize { v.rem_euclid(n) as usize };
    match step.op.as_str() {
        "FromStr" | "FromString" | "FromBytes" => {
            let s = sl(step.arg(0));
            if st.slots[s].is_some() {
                return Ok(format!("{} noop", step.op));
            }
            let input = make_input(step.arg(1), step.arg(2), step.arg(3));
            let model = prefix(&input).to_string();
            match step.arg(1).rem_euclid(6) {
                0 => counts.push("probe.input_empty"),
                1 => counts.push("probe.input_nul_free"),
                2 => counts.push("probe.input_nul_terminated"),
                3 => counts.push("probe.input_interior_nul"),
                4 => counts.push("probe.input_nul_first"),
                _ => counts.push("probe.input_several_nul"),
            }
            // the input lives in an exact-size tracked block: whatever lies behind it is non-zero
            let (v, made_by) = match step.op.as_str() {
                "FromStr" => {
                    let v = track(|| {
                        let exact: Box<str> = input.clone().into_boxed_str();
                        let r = ReprCString::from(&*exact);
                        drop(exact);
                        r
                    });
                    (v, "From<&str>")
                }
                "FromString" => {
                    // an owned String as programs have them: exact, or with spare capacity (built
                    // by pushing, or truncated) - the conversion takes the String, so whatever
                    // it does with that buffer it must release it as what it is
                    let spare = (step.arg(3).rem_euclid(4) as usize) * 5;
                    let v = track(|| {
                        let mut owned = String::with_capacity(input.len() + spare);
                        owned.push_str(&input);
                        ReprCString::from(owned)
                    });
                    (v, "From<String>")
                }
                _ => {
                    let v = track(|| {
                        let exact: Box<[u8]> = input.as_bytes().to_vec().into_boxed_slice();
                        let r = ReprCString::from(&*exact);
                        drop(exact);
                        r
                    });
                    (v, "From<&[u8]>")
                }
            };
            st.slots[s] = Some(Slot { v, model, made_by });
            Ok(format!("{} slot={} input_len={} shape={}", step.op, s, input.len(), step.arg(1).rem_euclid(6)))
        }
        "Clone" => {
            let (a, b) = (sl(step.arg(0)), sl(step.arg(1)));
            if a == b || st.slots[a].is_none() || st.slots[b].is_some() {
                return Ok("Clone noop".into());
            }
            let src = st.slots[a].as_ref().unwrap();
            let v = track(|| src.v.clone());
            vcheck!(ptr_of(&v) != ptr_of(&src.v), "cstr.clone_aliases", "Clone", "clone shares the buffer of the original");
            st.slots[b] = Some(Slot { v, model: src.model.clone(), made_by: "Clone" });
            Ok(format!("Clone {}->{}", a, b))
        }
        "CloneFrom" => {
            // overwrite a live value with a copy of another (Clone::clone_from, what
            // Vec<ReprCString>::clone_from does element by element)
            let (a, b) = (sl(step.arg(0)), sl(step.arg(1)));
            if a == b || st.slots[a].is_none() || st.slots[b].is_none() {
                return Ok("CloneFrom noop".into());
            }
            let src = st.slots[a].take().unwrap();
            let dst = st.slots[b].as_mut().unwrap();
            track(|| dst.v.clone_from(&src.v));
            dst.model = src.model.clone();
            dst.made_by = "Clone::clone_from";
            let aliased = ptr_of(&dst.v) == ptr_of(&src.v);
            st.slots[a] = Some(src);
            vcheck!(!aliased, "cstr.clone_aliases", "Clone::clone_from", "the overwritten value shares the buffer of its source");
            Ok(format!("CloneFrom {}->{}", a, b))
        }
        "Eq" => {
            let (a, b) = (sl(step.arg(0)), sl(step.arg(1)));
            let (Some(x), Some(y)) = (st.slots[a].as_ref(), st.slots[b].as_ref()) else { return Ok("Eq noop".into()) };
            let got = x.v == y.v;
            let want = x.model == y.model;
            vcheck!(got == want, "cstr.eq_mismatch", "PartialEq", "{} == {} gave {}", brief(&x.model), brief(&y.model), got);
            if want {
                counts.push("probe.eq_true");
                vcheck!(h(&x.v) == h(&y.v), "cstr.hash_mismatch", "Hash", "equal values hash differently");
            }
            Ok(format!("Eq {} {} -> {}", a, b, got))
        }
        "Hash" => {
            let a = sl(step.arg(0));
            let Some(x) = st.slots[a].as_ref() else { return Ok("Hash noop".into()) };
            // Borrow contract: the borrowed form hashes and compares like the owned one
            let b: &ReprCStr = std::borrow::Borrow::borrow(&x.v);
            vcheck!(h(&x.v) == h(b), "cstr.hash_mismatch", "Borrow", "Borrow<ReprCStr> hashes differently from the owned value");
            let bs: &str = b.as_ref();
            vcheck!(bs == x.model, "cstr.readback_mismatch", "Borrow", "borrowed form reads {:?}, model {:?}", bs, x.model);
            // clone by content
            let c = track(|| x.v.clone());
            let same = c == x.v && h(&c) == h(&x.v);
            track(|| drop(c));
            vcheck!(same, "cstr.hash_mismatch", "Clone", "clone differs from original by == or hash");
            Ok(format!("Hash {}", a))
        }
        "Fmt" => {
            let a = sl(step.arg(0));
            let Some(x) = st.slots[a].as_ref() else { return Ok("Fmt noop".into()) };
            let disp = format!("{}", x.v);
            vcheck!(disp == x.model, "cstr.readback_mismatch", "Display", "Display gives {:?}, model {:?}", disp, x.model);
            let dbg = format!("{:?}", x.v);
            vcheck!(dbg.contains(&format!("{:?}", x.model)), "cstr.readback_mismatch", "Debug", "Debug gives {:?}", dbg);
            Ok(format!("Fmt {}", a))
        }
        "FromCStr" => {
            // a ReprCStr borrowed from a C string reads back the same text
            let input = make_input(1, step.arg(1), step.arg(2));
            let c = CString::new(prefix(&input)).expect("no interior NUL by construction");
            let r: ReprCStr = ReprCStr::from(c.as_c_str());
            let got: &str = r.as_ref();
            vcheck!(got == prefix(&input), "cstr.readback_mismatch", "ReprCStr::from(&CStr)", "reads {}, C string was {}", brief(got), brief(prefix(&input)));
            let copy = r;
            vcheck!(copy == r && h(&copy) == h(&r) && format!("{}", r) == prefix(&input), "cstr.eq_mismatch", "ReprCStr", "copy of a ReprCStr differs");
            // two borrowed strings compare by their text: same first character, different rest
            let mut other_text = prefix(&input).to_string();
            other_text.push('~');
            let c2 = CString::new(other_text.clone()).expect("no interior NUL by construction");
            let r2: ReprCStr = ReprCStr::from(c2.as_c_str());
            vcheck!(r2 != r, "cstr.eq_mismatch", "ReprCStr", "borrowed {:?} and {:?} compare equal", prefix(&input), other_text);
            let c3 = CString::new(prefix(&input)).expect("no interior NUL by construction");
            let r3: ReprCStr = ReprCStr::from(c3.as_c_str());
            vcheck!(r3 == r && h(&r3) == h(&r), "cstr.eq_mismatch", "ReprCStr", "two borrowed strings with the text {:?} at different addresses compare unequal", prefix(&input));
            Ok(format!("FromCStr len={}", got.len()))
        }
        "Drop" => {
            let a = sl(step.arg(0));
            let Some(slot) = st.slots[a].take() else { return Ok("Drop noop".into()) };
            track(|| drop(slot.v));
            Ok(format!("Drop {}", a))
        }
        _ => Ok(format!("unknown-op {}", step.op)),
    }
}

fn state_hash(st: &State) -> u64 {
    let mut hh = Fnv::new();
    for s in &st.slots {
        match s {
            None => hh.u64(0xffff),
            Some(s) => {
                hh.u64(s.model.len().min(6) as u64);
                hh.str(s.made_by);
            }
        }
    }
    hh.0
}

const OPS: [&str; 11] = ["FromStr", "FromString", "FromBytes", "Clone", "Eq", "Hash", "Fmt", "FromCStr", "Drop", "Drop", "CloneFrom"];

impl Engine for CStrEngine {
    fn name(&self) -> &'static str {
        "cstr"
    }

    fn gen(&self, rng: &mut Rng, _thorough: bool) -> Plan {
        let mut p = Plan::new("cstr");
        let pool = rng.range(2, 5);
        let threads = rng.range(1, 3);
        p.set("pool", pool);
        p.set("threads", threads);
        let max_steps = if rng.chance(1, 2) { rng.range(2, 8) } else { rng.range(8, 30) };
        let mut w: Vec<u32> = vec![10, 6, 8, 6, 6, 4, 3, 2, 8, 4, 5];
        for i in 0..w.len() {
            if rng.chance(1, 6) {
                w[i] = 0;
            }
        }
        if w[0] + w[1] + w[2] == 0 {
            w[0] = 10;
        }
        for _ in 0..max_steps {
            let t = rng.below(threads as u64) as u8;
            let op = OPS[rng.weighted(&w)];
            let s0 = rng.below(pool as u64) as i64;
            let s1 = rng.below(pool as u64) as i64;
            match op {
                "FromStr" | "FromString" | "FromBytes" => {
                    let len = if rng.chance(1, 16) { *rng.pick(&[1000, 4095, 4096, 65534, 65535, 65536, 65537, 131072]) } else { *rng.pick(&[0, 1, 2, 3, 7, 8, 15, 16, 24]) };
                    p.push(t, op, &[s0, rng.range(0, 5), len, rng.range(0, 1000)]);
                }
                "Clone" | "Eq" | "CloneFrom" => p.push(t, op, &[s0, s1]),
                "FromCStr" => p.push(t, op, &[0, if rng.chance(1, 12) { *rng.pick(&[65535, 65536, 65537, 100_000]) } else { rng.range(0, 24) }, rng.range(0, 1000)]),
                _ => p.push(t, op, &[s0]),
            }
        }
        p
    }

    fn exec(&self, plan: &Plan, ctx: &mut RunCtx) -> VResult {
        let npool = plan.cfg("pool", 3).clamp(1, 8) as usize;
        let mut st = State { slots: (0..npool).map(|_| None).collect() };
        let mut result: VResult = Ok(());
        for (i, step) in plan.steps.iter().enumerate() {
            ctx.cur_step = i as i64;
            alloc::set_step(i as i64);
            let mut counts: Vec<&'static str> = Vec::new();
            let stp = &mut st;
            let r = ctx.baton.on(step.t, || apply(stp, step, &mut counts));
            if step.t != 0 {
                ctx.count("fault.cross_thread_op");
            }
            for c in counts {
                ctx.count(c);
            }
            let line = match r {
                Ok(l) => l,
                Err(mut v) => {
                    v.step = i as i64;
                    result = Err(v);
                    break;
                }
            };
            if !line.contains("noop") {
                ctx.count(&format!("op.{}", step.op));
                ctx.effective(matches!(step.op.as_str(), "FromStr" | "FromString" | "FromBytes" | "Clone" | "Drop"));
            }
            ctx.log(&format!("s{} t{} {}", i, step.t, line));
            if let Err(mut v) = check_all(&st, &format!("after step {} ({})", i, step.text())) {
                v.step = i as i64;
                result = Err(v);
                break;
            }
            ctx.reach(state_hash(&st), plan.steps.get(i + 1).map(|s| s.op.as_str()));
        }
        if result.is_err() {
            std::mem::forget(st);
            return result;
        }
        ctx.cur_step = -1;
        alloc::set_step(-1);
        for s in st.slots.iter_mut() {
            if let Some(slot) = s.take() {
                track(|| drop(slot.v));
            }
        }
        simcore::check_alloc("cstr")?;
        simcore::check_no_leak("cstr")
    }
}
