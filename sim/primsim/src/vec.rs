//! C11 (+C16 for the vector layout): CVec against a Vec reference model.
//!
//! Faults: out-of-range insert/remove (caught panic, history continues), foreign module's growth
//! policy (vector manufactured through the published C layout with the simulator's own
//! reserve_fn/drop_fn allocating from a separate arena), cross-thread ops, C-party ops.

use crate::cview::{self, VecView};
use cglue::vec::CVec;
use simcore::alloc::{self, track, untracked};
use simcore::{vcheck, Engine, Fnv, Plan, Rng, RunCtx, Step, VResult, Violation};
use std::alloc::{GlobalAlloc, Layout, System};
use std::collections::BTreeMap;
use std::panic::{catch_unwind, AssertUnwindSafe};
use std::sync::atomic::{AtomicI32, AtomicU32, AtomicU64, Ordering};
use std::sync::{Arc, Mutex};

pub struct VecEngine;

const MAX_IDS: usize = 4096;

pub struct Reg {
    pub(crate) live: Vec<AtomicI32>,
    pub(crate) negative: AtomicU32,
    pub(crate) poison: AtomicU32,
}

impl Reg {
    pub(crate) fn new() -> Arc<Reg> {
        Arc::new(Reg { live: (0..MAX_IDS).map(|_| AtomicI32::new(0)).collect(), negative: AtomicU32::new(0), poison: AtomicU32::new(0) })
    }
    pub(crate) fn inc(&self, id: u32) {
        if (id as usize) < MAX_IDS {
            self.live[id as usize].fetch_add(1, Ordering::SeqCst);
        } else {
            self.poison.fetch_add(1, Ordering::SeqCst);
        }
    }
    pub(crate) fn dec(&self, id: u32) {
        if (id as usize) < MAX_IDS {
            if self.live[id as usize].fetch_sub(1, Ordering::SeqCst) <= 0 {
                self.negative.fetch_add(1, Ordering::SeqCst);
            }
        } else {
            self.poison.fetch_add(1, Ordering::SeqCst);
        }
    }
}

pub trait Elem: Clone + Send + std::fmt::Debug + 'static {
    const KIND: i64;
    const TRACKED: bool;
    /// for element types counted as a whole (zero-sized with destructor): instances alive right now
    fn live_total() -> Option<i64> {
        None
    }
    fn make(id: u32, reg: &Arc<Reg>) -> Self;
    /// value the model expects to read back for an element made with `id`
    fn key(id: u32) -> u64;
    fn read(&self) -> u64;
}

impl Elem for u8 {
    const KIND: i64 = 0;
    const TRACKED: bool = false;
    fn make(id: u32, _: &Arc<Reg>) -> Self {
        (id % 251) as u8
    }
    fn key(id: u32) -> u64 {
        (id % 251) as u64
    }
    fn read(&self) -> u64 {
        *self as u64
    }
}

impl Elem for u64 {
    const KIND: i64 = 1;
    const TRACKED: bool = false;
    fn make(id: u32, _: &Arc<Reg>) -> Self {
        Self::key(id)
    }
    fn key(id: u32) -> u64 {
        0x0101_0101_0101_0101u64.wrapping_mul(id as u64 + 1)
    }
    fn read(&self) -> u64 {
        *self
    }
}

#[derive(Clone, Copy)]
pub struct Zst;
impl std::fmt::Debug for Zst {
    fn fmt(&self, f: &mut std::fmt::Formatter<'_>) -> std::fmt::Result {
        std::fmt::Debug::fmt(&0u64, f)
    }
}
impl std::fmt::Debug for ZDrop {
    fn fmt(&self, f: &mut std::fmt::Formatter<'_>) -> std::fmt::Result {
        std::fmt::Debug::fmt(&0u64, f)
    }
}
impl std::fmt::Debug for Droppy {
    fn fmt(&self, f: &mut std::fmt::Formatter<'_>) -> std::fmt::Result {
        std::fmt::Debug::fmt(&self.read(), f)
    }
}
impl Elem for Zst {
    const KIND: i64 = 2;
    const TRACKED: bool = false;
    fn make(_: u32, _: &Arc<Reg>) -> Self {
        Zst
    }
    fn key(_: u32) -> u64 {
        0
    }
    fn read(&self) -> u64 {
        0
    }
}

/// Zero-sized element with a destructor: nothing to tell instances apart, but their number is known.
pub struct ZDrop;
static ZD_LIVE: std::sync::atomic::AtomicI64 = std::sync::atomic::AtomicI64::new(0);
impl Clone for ZDrop {
    fn clone(&self) -> Self {
        ZD_LIVE.fetch_add(1, Ordering::SeqCst);
        ZDrop
    }
}
impl Drop for ZDrop {
    fn drop(&mut self) {
        ZD_LIVE.fetch_sub(1, Ordering::SeqCst);
    }
}
impl Elem for ZDrop {
    const KIND: i64 = 4;
    const TRACKED: bool = false;
    fn live_total() -> Option<i64> {
        Some(ZD_LIVE.load(Ordering::SeqCst))
    }
    fn make(_: u32, _: &Arc<Reg>) -> Self {
        ZD_LIVE.fetch_add(1, Ordering::SeqCst);
        ZDrop
    }
    fn key(_: u32) -> u64 {
        0
    }
    fn read(&self) -> u64 {
        0
    }
}

/// Heap-owning element with a logged destructor. 24 bytes, align 8.
pub struct Droppy {
    id: u32,
    heap: Box<u64>,
    reg: Arc<Reg>,
}
/// Fault injection: the n-th clone of a counted element from now on fails (panics); -1 = off.
static CLONE_BOMB: std::sync::atomic::AtomicI64 = std::sync::atomic::AtomicI64::new(-1);

impl Clone for Droppy {
    fn clone(&self) -> Self {
        match CLONE_BOMB.load(Ordering::SeqCst) {
            0 => {
                CLONE_BOMB.store(-1, Ordering::SeqCst);
                panic!("injected: clone of an element fails");
            }
            n if n > 0 => CLONE_BOMB.store(n - 1, Ordering::SeqCst),
            _ => {}
        }
        self.reg.inc(self.id);
        Droppy { id: self.id, heap: Box::new(*self.heap), reg: self.reg.clone() }
    }
}
impl Drop for Droppy {
    fn drop(&mut self) {
        self.reg.dec(self.id);
    }
}
impl Elem for Droppy {
    const KIND: i64 = 3;
    const TRACKED: bool = true;
    fn make(id: u32, reg: &Arc<Reg>) -> Self {
        reg.inc(id);
        Droppy { id, heap: Box::new(id as u64 ^ 0x5555), reg: reg.clone() }
    }
    fn key(id: u32) -> u64 {
        ((id as u64) << 32) | ((id as u64 ^ 0x5555) & 0xffff_ffff)
    }
    fn read(&self) -> u64 {
        ((self.id as u64) << 32) | (*self.heap & 0xffff_ffff)
    }
}

// ------------------------------------------------------------------------------------------------
// the simulated foreign module: its own arena, its own growth policy, its own books
// ------------------------------------------------------------------------------------------------

struct Arena {
    /// data pointer -> (capacity in elements, byte size, align)
    blocks: BTreeMap<usize, (usize, usize, usize)>,
    errors: Vec<String>,
    reserve_calls: u64,
    drop_calls: u64,
    moved: u64,
    /// what the owner of a vector that is being released expects its drop_fn to be told:
    /// (data, len) of the vector at that moment
    expect_drop: Option<(usize, usize)>,
}

static ARENA: Mutex<Option<Arena>> = Mutex::new(None);
static POLICY: AtomicU64 = AtomicU64::new(0);

fn arena<R>(f: impl FnOnce(&mut Arena) -> R) -> R {
    untracked(|| {
        let mut g = ARENA.lock().unwrap_or_else(|p| p.into_inner());
        if g.is_none() {
            *g = Some(Arena { blocks: BTreeMap::new(), errors: Vec::new(), reserve_calls: 0, drop_calls: 0, moved: 0, expect_drop: None });
        }
        f(g.as_mut().unwrap())
    })
}

unsafe fn arena_alloc<T>(cap: usize) -> *mut T {
    let size = (cap * std::mem::size_of::<T>()).max(1);
    let align = std::mem::align_of::<T>().max(8);
    let p = System.alloc(Layout::from_size_align_unchecked(size, align));
    std::ptr::write_bytes(p, 0xE7, size);
    alloc::register_foreign(p, size);
    arena(|a| a.blocks.insert(p as usize, (cap, size, align)));
    p as *mut T
}

unsafe fn arena_free(p: *mut u8) -> bool {
    let rec = arena(|a| a.blocks.remove(&(p as usize)));
    match rec {
        Some((_, size, align)) => {
            alloc::unregister_foreign(p);
            std::ptr::write_bytes(p, 0xDD, size);
            System.dealloc(p, Layout::from_size_align_unchecked(size, align));
            true
        }
        None => false,
    }
}

unsafe extern "C" fn foreign_reserve<T>(v: *mut VecView<T>, additional: usize) -> usize {
    let v = &mut *v;
    let known = arena(|a| {
        a.reserve_calls += 1;
        // an empty vector of this module may have no buffer at all: {NULL, 0, 0}
        if v.data.is_null() && v.capacity == 0 { Some(0) } else { a.blocks.get(&(v.data as usize)).map(|r| r.0) }
    });
    match known {
        Some(c) if c == v.capacity => {}
        Some(c) => arena(|a| a.errors.push(format!("reserve_fn: vector says capacity={} but the module allocated {}", v.capacity, c))),
        None => arena(|a| a.errors.push("reserve_fn: data pointer is not a block of this module".to_string())),
    }
    let need = v.len + additional;
    let policy = POLICY.load(Ordering::Relaxed);
    let newcap = match policy % 4 {
        0 => need,                             // exact
        1 => std::cmp::max(need, v.capacity * 2), // doubling
        2 => need + 7,                         // over-allocate
        _ => std::cmp::max(need, v.capacity),  // move on every call, even when large enough
    };
    if newcap <= v.capacity && policy % 4 != 3 {
        return v.capacity;
    }
    let n = arena_alloc::<T>(newcap);
    if v.len > 0 {
        std::ptr::copy_nonoverlapping(v.data, n, v.len);
    }
    let old = v.data;
    v.data = n;
    v.capacity = newcap;
    if known.is_some() && !old.is_null() {
        arena_free(old as *mut u8);
    }
    arena(|a| a.moved += 1);
    newcap
}

unsafe extern "C" fn foreign_drop<T>(data: *mut T, len: usize, capacity: usize) {
    if data.is_null() && capacity == 0 && len == 0 {
        arena(|a| a.drop_calls += 1);
        return;
    }
    let known = arena(|a| {
        a.drop_calls += 1;
        if let Some((d, l)) = a.expect_drop.take() {
            if d == data as usize && l != len {
                a.errors.push(format!("drop_fn: told len={} for a vector that held {} element(s) when it was released (the module's own clean-up of its elements depends on it)", len, l));
            }
        }
        a.blocks.get(&(data as usize)).map(|r| r.0)
    });
    match known {
        Some(c) if c == capacity => {}
        Some(c) => arena(|a| a.errors.push(format!("drop_fn: called with capacity={} but the block was allocated with {}", capacity, c))),
        None => {
            arena(|a| a.errors.push("drop_fn: data pointer is not a live block of this module (double drop or foreign buffer)".to_string()));
            return;
        }
    }
    if len > capacity {
        arena(|a| a.errors.push(format!("drop_fn: len={} > capacity={}", len, capacity)));
        return;
    }
    for i in 0..len {
        std::ptr::drop_in_place(data.add(i));
    }
    arena_free(data as *mut u8);
}

static NULL_EMPTY: std::sync::atomic::AtomicU32 = std::sync::atomic::AtomicU32::new(0);

/// `owned == false`: the foreign module keeps the buffer for itself (`drop_fn` is NULL): dropping
/// the vector on the Rust side releases nothing, the module reads the structure back and releases
/// buffer and elements itself (see `release`).
fn new_foreign<T: Elem>(items: Vec<T>, spare: usize, owned: bool) -> CVec<T> {
    unsafe {
        let cap = items.len() + spare;
        // every other bufferless vector of the foreign module is the C-natural {NULL, 0, 0}
        let data = if cap == 0 && NULL_EMPTY.fetch_add(1, Ordering::Relaxed) % 2 == 0 { std::ptr::null_mut() } else { arena_alloc::<T>(cap) };
        let len = items.len();
        for (i, it) in items.into_iter().enumerate() {
            std::ptr::write(data.add(i), it);
        }
        let view = VecView::<T> { data, len, capacity: cap, drop_fn: if owned { Some(foreign_drop::<T>) } else { None }, reserve_fn: Some(foreign_reserve::<T>) };
        cview::view::<VecView<T>, CVec<T>>(view)
    }
}

/// Drops a vector the way its owner would: Rust's `Drop`, and for a vector whose `drop_fn` is NULL
/// the foreign module's own release of what it kept (a double release or a missing one shows in
/// the element and buffer books).
fn release<T: Elem>(v: CVec<T>) {
    let cv = view_of(&v);
    if !cv.data.is_null() {
        arena(|a| a.expect_drop = Some((cv.data as usize, cv.len)));
    }
    track(|| drop(v));
    arena(|a| a.expect_drop = None);
    if cv.drop_fn.is_none() {
        unsafe { foreign_drop(cv.data, cv.len, cv.capacity) };
    }
}

// ------------------------------------------------------------------------------------------------

struct Slot<T> {
    v: CVec<T>,
    model: Vec<u32>,
    foreign: bool,
}

struct State<T> {
    slots: Vec<Option<Slot<T>>>,
    reg: Arc<Reg>,
    next_id: u32,
}

fn fresh<T: Elem>(st: &mut State<T>) -> (T, u32) {
    let id = st.next_id;
    st.next_id += 1;
    (T::make(id, &st.reg), id)
}

fn view_of<T>(v: &CVec<T>) -> VecView<T> {
    unsafe { std::ptr::read(v as *const CVec<T> as *const VecView<T>) }
}

fn check_slot<T: Elem>(i: usize, s: &Slot<T>, when: &str) -> VResult {
    let v = &s.v;
    vcheck!(v.len() == s.model.len(), "vec.len_mismatch", "len", "{}: slot {} len()={} but the Vec model has {}", when, i, v.len(), s.model.len());
    vcheck!(v.capacity() >= v.len(), "vec.capacity_lt_len", "capacity", "{}: slot {} capacity()={} < len()={}", when, i, v.capacity(), v.len());
    vcheck!(v.is_empty() == s.model.is_empty(), "vec.len_mismatch", "is_empty", "{}: is_empty disagrees", when);
    let got: Vec<u64> = v.iter().map(|e| e.read()).collect();
    let want: Vec<u64> = s.model.iter().map(|id| T::key(*id)).collect();
    vcheck!(got == want, "vec.contents_mismatch", "contents", "{}: slot {} contents {:x?} but the Vec model has {:x?}", when, i, got, want);
    // C view agrees with the accessors (published field order)
    let cv = view_of(v);
    vcheck!(cv.len == v.len() && cv.capacity == v.capacity() && cv.data as *const T == v.as_ptr(), "vec.layout", "fields",
        "{}: C view (data,len,capacity) disagrees with len()/capacity()/as_ptr()", when);
    if s.foreign {
        let known = if cv.data.is_null() { Some(0) } else { arena(|a| a.blocks.get(&(cv.data as usize)).map(|r| r.0)) };
        vcheck!(known == Some(cv.capacity), "vec.foreign_books", "buffer", "{}: slot {} buffer/capacity {:?} is not what the foreign module's reserve_fn last returned (cap field={})", when, i, known, cv.capacity);
    } else if std::mem::size_of::<T>() > 0 && cv.capacity > 0 && !cfg!(miri) {
        // a Rust-made buffer must be one tracked block of exactly capacity*size bytes
        match alloc::block_at(cv.data as *const u8) {
            Some(b) => vcheck!(b.live && b.size == cv.capacity * std::mem::size_of::<T>(), "vec.capacity_not_allocation", "capacity",
                "{}: slot {} capacity={} elements but its buffer is a {}-byte block (live={})", when, i, cv.capacity, b.size, b.live),
            None => {}
        }
    }
    Ok(())
}

fn check_all<T: Elem>(st: &State<T>, when: &str) -> VResult {
    for (i, s) in st.slots.iter().enumerate() {
        if let Some(s) = s {
            check_slot(i, s, when)?;
        }
    }
    let errs = arena(|a| std::mem::take(&mut a.errors));
    vcheck!(errs.is_empty(), "vec.foreign_books", "functions", "{}: foreign module: {}", when, errs.join(" | "));
    if T::TRACKED {
        let mut want: BTreeMap<u32, i32> = BTreeMap::new();
        for s in st.slots.iter().flatten() {
            for id in &s.model {
                *want.entry(*id).or_insert(0) += 1;
            }
        }
        vcheck!(st.reg.negative.load(Ordering::SeqCst) == 0, "vec.elem_double_drop", "element", "{}: an element was destroyed more often than it was created", when);
        vcheck!(st.reg.poison.load(Ordering::SeqCst) == 0, "vec.elem_fabricated", "element", "{}: an element with an impossible id was cloned or destroyed", when);
        for id in 0..st.next_id {
            let live = st.reg.live[id as usize].load(Ordering::SeqCst);
            let w = want.get(&id).copied().unwrap_or(0);
            vcheck!(live == w, "vec.elem_drop_mismatch", "element", "{}: element {} has {} live instance(s), the model expects {}", when, id, live, w);
        }
    }
    if let Some(live) = T::live_total() {
        let want: i64 = st.slots.iter().flatten().map(|s| s.model.len() as i64).sum();
        vcheck!(live == want, "vec.elem_drop_mismatch", "zero-sized element", "{}: {} zero-sized element(s) with destructor are alive, the vectors hold {}", when, live, want);
    }
    simcore::check_alloc("vec")
}

fn apply<T: Elem>(st: &mut State<T>, step: &Step, counts: &mut Vec<&'static str>) -> Result<String, Violation> {
    let n = st.slots.len() as i64;
    let sl = |v: i64| -> usize { v.rem_euclid(n) as usize };
    match step.op.as_str() {
        "FromVec" => {
            let s = sl(step.arg(0));
            let len = step.arg(1).clamp(0, 24) as usize;
            let spare = step.arg(2).clamp(0, 16) as usize;
            let kind = step.arg(3).rem_euclid(4);
            if st.slots[s].is_some() {
                return Ok("FromVec noop".into());
            }
            let mut ids = Vec::new();
            let mut items: Vec<T> = Vec::new();
            let made: Vec<(T, u32)> = (0..len).map(|_| fresh(st)).collect();
            let (v, foreign) = match kind {
                3 => {
                    for (e, id) in made {
                        items.push(e);
                        ids.push(id);
                    }
                    counts.push("fault.foreign_policy");
                    let owned = (len + spare) % 3 != 1;
                    if !owned {
                        counts.push("fault.foreign_unowned_buffer");
                    }
                    (new_foreign(items, spare, owned), true)
                }
                2 if len == 0 => (track(CVec::default), false),
                _ => {
                    let v = track(|| {
                        let mut items: Vec<T> = if kind == 1 { Vec::with_capacity(len + spare) } else { Vec::new() };
                        for (e, id) in made {
                            items.push(e);
                            ids.push(id);
                        }
                        if kind != 1 {
                            items.shrink_to_fit();
                        }
                        CVec::from(items)
                    });
                    (v, false)
                }
            };
            let line = format!("FromVec slot={} len={} kind={} cap>=len:{}", s, len, kind, v.capacity() >= v.len());
            st.slots[s] = Some(Slot { v, model: ids, foreign });
            Ok(line)
        }
        "Push" => {
            let s = sl(step.arg(0));
            let party = step.arg(1) & 1;
            if st.slots[s].is_none() {
                return Ok("Push noop".into());
            }
            let (e, id) = fresh(st);
            let slot = st.slots[s].as_mut().unwrap();
            let before = view_of(&slot.v);
            if party == 1 {
                counts.push("party.c");
                // what a C caller does with the published struct
                unsafe {
                    let vp = &mut slot.v as *mut CVec<T> as *mut VecView<T>;
                    if (*vp).len == (*vp).capacity {
                        track(|| ((*vp).reserve_fn.expect("reserve_fn null"))(vp, 1));
                    }
                    vcheck!((*vp).capacity > (*vp).len, "vec.reserve_no_room", "reserve_fn", "reserve_fn(1) left capacity={} len={}", (*vp).capacity, (*vp).len);
                    std::ptr::write((*vp).data.add((*vp).len), e);
                    (*vp).len += 1;
                }
            } else {
                track(|| slot.v.push(e));
            }
            slot.model.push(id);
            let after = view_of(&slot.v);
            if after.data != before.data {
                counts.push("probe.buffer_moved");
            }
            Ok(format!("Push slot={} id={} grew={}", s, id, after.capacity != before.capacity))
        }
        "Pop" => {
            let s = sl(step.arg(0));
            let Some(slot) = st.slots[s].as_mut() else { return Ok("Pop noop".into()) };
            let got = track(|| slot.v.pop());
            let want = slot.model.pop();
            let gk = got.as_ref().map(|e| e.read());
            vcheck!(gk == want.map(T::key), "vec.pop_wrong", "pop", "pop() returned {:x?}, the Vec model {:x?}", gk, want.map(T::key));
            if want.is_none() {
                counts.push("probe.pop_empty");
            }
            track(|| drop(got));
            Ok(format!("Pop slot={} -> {:?}", s, want))
        }
        "Insert" | "Remove" => {
            let s = sl(step.arg(0));
            let is_insert = step.op == "Insert";
            if st.slots[s].is_none() {
                return Ok(format!("{} noop", step.op));
            }
            let len = st.slots[s].as_ref().unwrap().model.len();
            // arg1: position selector; arg2: 1 = deliberately out of range (caller_error fault)
            let oob = step.arg(2) & 1 == 1;
            let limit = if is_insert { len + 1 } else { len };
            let idx = if oob || limit == 0 { limit + step.arg(1).rem_euclid(3) as usize } else { step.arg(1).rem_euclid(limit as i64) as usize };
            let out_of_range = idx >= limit;
            if is_insert {
                let (e, id) = fresh(st);
                let slot = st.slots[s].as_mut().unwrap();
                let before = view_of(&slot.v);
                let r = catch_unwind(AssertUnwindSafe(|| track(|| slot.v.insert(idx, e))));
                if out_of_range {
                    counts.push("fault.caller_error");
                    vcheck!(r.is_err(), "vec.oob_no_panic", "insert", "insert({}) on len {} did not panic", idx, len);
                    let after = view_of(&slot.v);
                    // contents and order are compared with the model right after this step; growing the
                    // buffer before the check is not a modification the property speaks of
                    vcheck!(after.len == before.len, "vec.oob_modified", "insert", "out-of-range insert changed the length");
                    // the element passed by value is destroyed by the unwind: model unchanged
                } else {
                    vcheck!(r.is_ok(), "vec.unexpected_panic", "insert", "insert({}) on len {} panicked", idx, len);
                    slot.model.insert(idx, id);
                    if idx == 0 { counts.push("probe.insert_front"); }
                    if idx == len { counts.push("probe.insert_back"); }
                }
                Ok(format!("Insert slot={} idx={} id={} oob={}", s, idx, id, out_of_range))
            } else {
                let slot = st.slots[s].as_mut().unwrap();
                let before = view_of(&slot.v);
                let r = catch_unwind(AssertUnwindSafe(|| track(|| slot.v.remove(idx))));
                if out_of_range {
                    counts.push("fault.caller_error");
                    vcheck!(r.is_err(), "vec.oob_no_panic", "remove", "remove({}) on len {} did not panic", idx, len);
                    let after = view_of(&slot.v);
                    vcheck!(after.len == before.len, "vec.oob_modified", "remove", "out-of-range remove changed the length");
                    Ok(format!("Remove slot={} idx={} oob", s, idx))
                } else {
                    let got = match r {
                        Ok(g) => g,
                        Err(_) => return Err(Violation::new("vec.unexpected_panic", "remove", format!("remove({}) on len {} panicked", idx, len))),
                    };
                    let want = slot.model.remove(idx);
                    vcheck!(got.read() == T::key(want), "vec.remove_wrong", "remove", "remove({}) returned {:x}, the Vec model {:x}", idx, got.read(), T::key(want));
                    track(|| drop(got));
                    if idx + 1 == len { counts.push("probe.remove_last"); }
                    Ok(format!("Remove slot={} idx={} id={}", s, idx, want))
                }
            }
        }
        "Reserve" => {
            let s = sl(step.arg(0));
            let add = step.arg(1).clamp(0, 40) as usize;
            let Some(slot) = st.slots[s].as_mut() else { return Ok("Reserve noop".into()) };
            let before = view_of(&slot.v);
            if step.arg(2) & 1 == 1 {
                counts.push("party.c");
                // a C caller asks for room through the stored function, whether or not there is some
                // already, and uses the capacity the function reports
                unsafe {
                    let vp = &mut slot.v as *mut CVec<T> as *mut VecView<T>;
                    let reported = track(|| ((*vp).reserve_fn.expect("reserve_fn null"))(vp, add));
                    vcheck!(reported == (*vp).capacity, "vec.reserve_report", "reserve_fn", "reserve_fn({}) returned {} but left capacity={} (len={}) in the vector", add, reported, (*vp).capacity, (*vp).len);
                }
            } else {
                track(|| slot.v.reserve(add));
            }
            let after = view_of(&slot.v);
            vcheck!(after.capacity - after.len >= add, "vec.reserve_no_room", "reserve", "reserve({}) left capacity={} len={}", add, after.capacity, after.len);
            if after.data != before.data {
                counts.push("probe.buffer_moved");
            }
            Ok(format!("Reserve slot={} add={} grew={}", s, add, after.capacity != before.capacity))
        }
        "Clone" => {
            let (a, b) = (sl(step.arg(0)), sl(step.arg(1)));
            if a == b || st.slots[a].is_none() || st.slots[b].is_some() {
                return Ok("Clone noop".into());
            }
            let src = st.slots[a].as_ref().unwrap();
            // an element's clone may fail midway: nothing of the half-made copy may stay behind
            let bomb = step.arg(2);
            if T::KIND == 3 && bomb > 0 && (bomb as usize) <= src.model.len() {
                counts.push("fault.element_clone_panics");
                CLONE_BOMB.store(bomb - 1, Ordering::SeqCst);
                let r = catch_unwind(AssertUnwindSafe(|| track(|| src.v.clone())));
                CLONE_BOMB.store(-1, Ordering::SeqCst);
                vcheck!(r.is_err(), "vec.unexpected_panic", "clone", "the failing element clone did not surface");
                return Ok(format!("Clone {}->{} failed at element {}", a, b, bomb - 1));
            }
            let v = track(|| src.v.clone());
            let model = src.model.clone();
            // a clone is made by this module, whatever module made the original
            st.slots[b] = Some(Slot { v, model, foreign: false });
            Ok(format!("Clone {}->{}", a, b))
        }
        "CloneFrom" => {
            // overwrite a live vector with a copy of another (Clone::clone_from); whether the
            // destination keeps its buffer (and with it the module that owns it) is the
            // implementation's choice and is read off the result
            let (a, b) = (sl(step.arg(0)), sl(step.arg(1)));
            if a == b || st.slots[a].is_none() || st.slots[b].is_none() {
                return Ok("CloneFrom noop".into());
            }
            if view_of(&st.slots[b].as_ref().unwrap().v).drop_fn.is_none() {
                // (what happens to a buffer its maker kept for itself is not the vector's business)
                return Ok("CloneFrom noop(unowned destination)".into());
            }
            let src = st.slots[a].take().unwrap();
            let dst = st.slots[b].as_mut().unwrap();
            track(|| dst.v.clone_from(&src.v));
            dst.model = src.model.clone();
            let cv = view_of(&dst.v);
            dst.foreign = cv.drop_fn.map(|f| f as usize) == Some(foreign_drop::<T> as usize);
            st.slots[a] = Some(src);
            Ok(format!("CloneFrom {}->{}", a, b))
        }
        "Write" => {
            let s = sl(step.arg(0));
            if st.slots[s].as_ref().map(|x| x.model.is_empty()).unwrap_or(true) {
                return Ok("Write noop".into());
            }
            let (e, id) = fresh(st);
            let slot = st.slots[s].as_mut().unwrap();
            let idx = step.arg(1).rem_euclid(slot.model.len() as i64) as usize;
            if step.arg(2) & 1 == 1 {
                counts.push("party.c");
                unsafe {
                    let cv = view_of(&slot.v);
                    let old = std::ptr::replace(cv.data.add(idx), e);
                    track(|| drop(old));
                }
            } else {
                track(|| slot.v[idx] = e);
            }
            slot.model[idx] = id;
            Ok(format!("Write slot={} idx={} id={}", s, idx, id))
        }
        "Show" => {
            // formatted output: what a Vec of the same elements prints under the same format
            // request (plain, alternate, hexadecimal with width, padded) is what the CVec prints
            let s = sl(step.arg(0));
            let Some(slot) = st.slots[s].as_ref() else { return Ok("Show noop".into()) };
            let spec = step.arg(1).rem_euclid(5);
            let want: Vec<u64> = slot.model.iter().map(|id| T::key(*id)).collect();
            let (got, exp) = untracked(|| match spec {
                0 => (format!("{:?}", slot.v), format!("{:?}", want)),
                1 => (format!("{:#?}", slot.v), format!("{:#?}", want)),
                2 => (format!("{:02x?}", slot.v), format!("{:02x?}", want)),
                3 => (format!("{:#06X?}", slot.v), format!("{:#06X?}", want)),
                _ => (format!("{:>5?}", slot.v), format!("{:>5?}", want)),
            });
            if got != exp {
                let cut = |s: &str| s.chars().take(80).collect::<String>().replace('\n', "\\n");
                return Err(Violation::new("vec.debug_output", "fmt", format!("format request #{} on a vector of {} element(s) printed `{}` where a Vec of the same elements prints `{}`", spec, want.len(), cut(&got), cut(&exp))));
            }
            if spec != 0 && !want.is_empty() {
                counts.push("probe.show_flags_nonempty");
            }
            Ok(format!("Show slot={} spec={}", s, spec))
        }
        "Drop" => {
            let s = sl(step.arg(0));
            let Some(slot) = st.slots[s].take() else { return Ok("Drop noop".into()) };
            let nonempty = !slot.model.is_empty();
            if step.arg(1) & 1 == 1 {
                counts.push("party.c");
                unsafe {
                    let cv: VecView<T> = cview::view(slot.v);
                    match cv.drop_fn {
                        Some(f) => track(|| f(cv.data, cv.len, cv.capacity)),
                        None => foreign_drop(cv.data, cv.len, cv.capacity),
                    }
                }
            } else {
                release(slot.v);
            }
            if nonempty {
                counts.push("probe.drop_nonempty");
            }
            Ok(format!("Drop slot={}", s))
        }
        _ => Ok(format!("unknown-op {}", step.op)),
    }
}

fn state_hash<T: Elem>(st: &State<T>) -> u64 {
    let mut h = Fnv::new();
    h.i64(T::KIND);
    for s in &st.slots {
        match s {
            None => h.u64(0xffff),
            Some(s) => {
                h.u64(s.model.len() as u64);
                h.u64((s.v.capacity() - s.v.len()).min(3) as u64);
                h.u64(s.foreign as u64);
            }
        }
    }
    h.0
}

fn exec_t<T: Elem>(plan: &Plan, ctx: &mut RunCtx) -> VResult {
    vcheck!(cview::same_size::<CVec<T>, VecView<T>>(), "vec.layout", "size", "CVec no longer has the published 5-word layout");
    let npool = plan.cfg("pool", 2).clamp(1, 4) as usize;
    POLICY.store(plan.cfg("policy", 0).rem_euclid(4) as u64, Ordering::Relaxed);
    NULL_EMPTY.store(0, Ordering::Relaxed);
    CLONE_BOMB.store(-1, Ordering::SeqCst);
    arena(|a| {
        a.blocks.clear();
        a.errors.clear();
    });
    let mut st: State<T> = State { slots: (0..npool).map(|_| None).collect(), reg: Reg::new(), next_id: 0 };
    let mut result: VResult = Ok(());
    for (i, step) in plan.steps.iter().enumerate() {
        ctx.cur_step = i as i64;
        alloc::set_step(i as i64);
        if st.next_id as usize + 64 >= MAX_IDS {
            break;
        }
        let mut counts: Vec<&'static str> = Vec::new();
        let stp = &mut st;
        let r = ctx.baton.on(step.t, || apply(stp, step, &mut counts));
        if step.t != 0 {
            ctx.count("fault.cross_thread_op");
        }
        for c in counts {
            ctx.count(c);
        }
        let line = match r {
            Ok(l) => l,
            Err(mut v) => {
                v.step = i as i64;
                result = Err(v);
                break;
            }
        };
        if !line.contains("noop") {
            ctx.count(&format!("op.{}", step.op));
            ctx.effective(true);
        }
        ctx.log(&format!("s{} t{} {}", i, step.t, line));
        if let Err(mut v) = check_all(&st, &format!("after step {} ({})", i, step.text())) {
            v.step = i as i64;
            result = Err(v);
            break;
        }
        ctx.reach(state_hash(&st), plan.steps.get(i + 1).map(|s| s.op.as_str()));
    }
    if result.is_err() {
        std::mem::forget(st);
        return result;
    }
    ctx.cur_step = -1;
    alloc::set_step(-1);
    // quiescence: drop what is left, on the last logical thread that was used (cross-thread drop)
    let last_t = plan.steps.last().map(|s| s.t).unwrap_or(0);
    {
        let stp = &mut st;
        ctx.baton.on(last_t, || {
            for s in stp.slots.iter_mut() {
                if let Some(slot) = s.take() {
                    release(slot.v);
                }
            }
        });
    }
    check_all(&st, "at quiescence")?;
    let (blocks, reserve_calls, moved) = arena(|a| (a.blocks.len(), a.reserve_calls, a.moved));
    vcheck!(blocks == 0, "vec.foreign_books", "leak", "at quiescence the foreign module still has {} buffer(s) that were never passed to its drop_fn", blocks);
    ctx.count_n("probe.foreign_reserve_calls", reserve_calls);
    ctx.count_n("probe.foreign_buffer_moved", moved);
    arena(|a| {
        a.reserve_calls = 0;
        a.moved = 0;
        a.drop_calls = 0;
    });
    simcore::check_no_leak("vec")
}

const OPS: [&str; 11] = ["FromVec", "Push", "Pop", "Insert", "Remove", "Reserve", "Clone", "Write", "Drop", "CloneFrom", "Show"];

impl Engine for VecEngine {
    fn name(&self) -> &'static str {
        "vec"
    }

    fn gen(&self, rng: &mut Rng, thorough: bool) -> Plan {
        let mut p = Plan::new("vec");
        let pool = rng.range(1, 3);
        let threads = rng.range(1, 3);
        p.set("pool", pool);
        p.set("threads", threads);
        p.set("elem", rng.range(0, 4));
        p.set("policy", rng.range(0, 3));
        let max_steps = if rng.chance(1, 2) { rng.range(3, 10) } else { rng.range(10, if thorough { 60 } else { 40 }) };
        let mut w: Vec<u32> = vec![6, 16, 8, 10, 10, 4, 3, 6, 4, 3, 3];
        for i in 1..w.len() {
            if rng.chance(1, 6) {
                w[i] = 0;
            }
        }
        let oob_rate = if rng.chance(1, 2) { 0 } else { rng.range(1, 4) as u64 };
        let foreign = rng.chance(1, 3);
        let c_party = rng.chance(1, 3) || simcore::force_c_party();
        // always start with a vector so that short runs do something
        let first_kind = if foreign { 3 } else { rng.range(0, 2) };
        p.push(0, "FromVec", &[0, rng.range(0, 6), rng.range(0, 4), first_kind]);
        for _ in 0..max_steps {
            let t = rng.below(threads as u64) as u8;
            let op = OPS[rng.weighted(&w)];
            let s0 = rng.below(pool as u64) as i64;
            let party = if c_party && rng.chance(1, 3) { 1 } else { 0 };
            match op {
                "FromVec" => {
                    let kind = if foreign && rng.chance(1, 2) { 3 } else { rng.range(0, 2) };
                    p.push(t, op, &[s0, rng.range(0, 8), rng.range(0, 4), kind]);
                }
                "Push" => p.push(t, op, &[s0, party]),
                "Insert" | "Remove" => {
                    let oob = oob_rate > 0 && rng.chance(oob_rate, 10);
                    // bias positions to the ends
                    let pos = match rng.below(4) {
                        0 => 0,
                        1 => -1,
                        _ => rng.range(0, 30),
                    };
                    p.push(t, op, &[s0, pos, oob as i64]);
                }
                "Reserve" => p.push(t, op, &[s0, *rng.pick(&[0, 1, 1, 2, 5, 17, 40]), party]),
                "Clone" | "CloneFrom" => p.push(t, op, &[s0, rng.below(pool as u64) as i64, if rng.chance(1, 3) { rng.range(1, 4) } else { 0 }]),
                "Write" => p.push(t, op, &[s0, rng.range(0, 30), party]),
                "Drop" => p.push(t, op, &[s0, party]),
                "Show" => p.push(t, op, &[s0, rng.range(0, 4)]),
                _ => p.push(t, op, &[s0]),
            }
        }
        p
    }

    fn exec(&self, plan: &Plan, ctx: &mut RunCtx) -> VResult {
        match plan.cfg("elem", 1).rem_euclid(5) {
            0 => exec_t::<u8>(plan, ctx),
            1 => exec_t::<u64>(plan, ctx),
            2 => exec_t::<Zst>(plan, ctx),
            3 => exec_t::<Droppy>(plan, ctx),
            _ => {
                ZD_LIVE.store(0, Ordering::SeqCst);
                exec_t::<ZDrop>(plan, ctx)
            }
        }
    }
}
