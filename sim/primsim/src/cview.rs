//! The "C party": what a foreign caller knows about cglue's runtime types — only the field layout
//! published in examples/pregen-headers/bindings.h and the snippets in cglue-bindgen/src/types.rs.
//! Nothing here names a private field of a cglue type; values are reinterpreted as these views.
#![allow(dead_code)]

use std::ffi::c_void;

/// typedef struct CArc_c_void { const void *instance; const void *(*clone_fn)(const void*); void (*drop_fn)(const void*); }
#[repr(C)]
#[derive(Clone, Copy)]
pub struct ArcView {
    pub instance: *const c_void,
    pub clone_fn: Option<unsafe extern "C" fn(*const c_void) -> *const c_void>,
    pub drop_fn: Option<unsafe extern "C" fn(*const c_void)>,
}

impl ArcView {
    /// types.rs: `ret.instance = self->clone_fn(self->instance);` on a copy of *self
    pub unsafe fn c_clone(&self) -> ArcView {
        let mut ret = *self;
        ret.instance = (self.clone_fn.expect("C party: clone_fn is null"))(self.instance);
        ret
    }
    /// types.rs: `if (self->drop_fn && self->instance) self->drop_fn(self->instance);`
    pub unsafe fn c_drop(self) {
        if let Some(f) = self.drop_fn {
            if !self.instance.is_null() {
                f(self.instance)
            }
        }
    }
}

/// typedef struct CBox_c_void { void *instance; void (*drop_fn)(void*); }
#[repr(C)]
#[derive(Clone, Copy)]
pub struct BoxView {
    pub instance: *mut c_void,
    pub drop_fn: Option<unsafe extern "C" fn(*mut c_void)>,
}

impl BoxView {
    pub unsafe fn c_drop(self) {
        if let Some(f) = self.drop_fn {
            if !self.instance.is_null() {
                f(self.instance)
            }
        }
    }
}

/// struct CSliceRef_T / CSliceMut_T { T *data; uintptr_t len; }
#[repr(C)]
#[derive(Clone, Copy)]
pub struct SliceView<T> {
    pub data: *mut T,
    pub len: usize,
}

/// CSliceBox: { CSliceMut instance; void (*drop_fn)(CSliceMut*) }
#[repr(C)]
#[derive(Clone, Copy)]
pub struct SliceBoxView<T> {
    pub instance: SliceView<T>,
    pub drop_fn: Option<unsafe extern "C" fn(*mut SliceView<T>)>,
}

/// struct CVec_T { T *data; uintptr_t len; uintptr_t capacity; void (*drop_fn)(T*, uintptr_t, uintptr_t); uintptr_t (*reserve_fn)(CVec_T*, uintptr_t); }
#[repr(C)]
#[derive(Clone, Copy)]
pub struct VecView<T> {
    pub data: *mut T,
    pub len: usize,
    pub capacity: usize,
    pub drop_fn: Option<unsafe extern "C" fn(*mut T, usize, usize)>,
    pub reserve_fn: Option<unsafe extern "C" fn(*mut VecView<T>, usize) -> usize>,
}

/// struct Callback_c_void__T { void *context; bool (*func)(void*, T); }
#[repr(C)]
#[derive(Clone, Copy)]
pub struct CallbackView<T> {
    pub context: *mut c_void,
    pub func: Option<unsafe extern "C" fn(*mut c_void, T) -> bool>,
}

/// struct CIterator_T { void *iter; int32_t (*func)(void*, T *out); }  — 0 = an item was written
#[repr(C)]
#[derive(Clone, Copy)]
pub struct IterView<T> {
    pub iter: *mut c_void,
    pub func: Option<unsafe extern "C" fn(*mut c_void, *mut T) -> i32>,
}

/// COption<T>: tag None = 0, Some = 1 (declaration order of the repr(C) enum), payload after the tag
#[repr(C)]
#[derive(Clone, Copy)]
pub struct OptionView<T: Copy> {
    pub tag: u32,
    pub some: T,
}

/// CResult<T, E>: tag Ok = 0, Err = 1
#[repr(C)]
#[derive(Clone, Copy)]
pub union ResultPayload<T: Copy, E: Copy> {
    pub ok: T,
    pub err: E,
}
#[repr(C)]
#[derive(Clone, Copy)]
pub struct ResultView<T: Copy, E: Copy> {
    pub tag: u32,
    pub payload: ResultPayload<T, E>,
}

/// Reinterpret a value as its C view (sizes must agree; checked at run time, reported by caller).
pub unsafe fn view<A, B>(a: A) -> B {
    assert_eq!(std::mem::size_of::<A>(), std::mem::size_of::<B>(), "C view size differs from Rust type");
    let b = std::ptr::read(&a as *const A as *const B);
    std::mem::forget(a);
    b
}

pub fn same_size<A, B>() -> bool {
    std::mem::size_of::<A>() == std::mem::size_of::<B>() && std::mem::align_of::<A>() == std::mem::align_of::<B>()
}
