//! CBox / CSliceBox lifecycles (C06 for the bare boxes, C16 for box, slice, option and result
//! layouts): Rust party and C party over the same history, foreign-manufactured boxes whose
//! drop function must be called exactly once, cross-thread drops, simalloc layout matching.

use crate::cview::{self, BoxView, OptionView, ResultPayload, ResultView, SliceBoxView, SliceView};
use crate::vec::Reg;
use cglue::boxed::{CBox, CSliceBox};
use cglue::option::COption;
use cglue::result::CResult;
use cglue::slice::{CSliceMut, CSliceRef};
use cglue::trait_group::{c_void as gvoid, IntoInner, NoContext, Opaquable};
use simcore::alloc::{self, track};
use simcore::{vcheck, Engine, Fnv, Plan, Rng, RunCtx, Step, VResult, Violation};
use std::ffi::c_void;
use std::sync::atomic::{AtomicI32, AtomicU32, Ordering};
use std::sync::Arc;

pub struct CBoxEngine;

/// Payload: identity, heap state, logged destructor. Send (required by CBox::into_opaque).
pub struct Pay {
    id: u32,
    val: u64,
    heap: Box<u64>,
    reg: Arc<Reg>,
}
impl Pay {
    fn new(id: u32, reg: &Arc<Reg>) -> Pay {
        reg.inc(id);
        Pay { id, val: id as u64 * 3 + 1, heap: Box::new(id as u64 ^ 0xAAAA), reg: reg.clone() }
    }
    fn ok(&self) -> bool {
        *self.heap == (self.id as u64 ^ 0xAAAA)
    }
}
impl Drop for Pay {
    fn drop(&mut self) {
        self.reg.dec(self.id);
    }
}

/// Zero-sized payload with a logged destructor (through a global, it has no fields).
pub struct ZPay;
static Z_LIVE: AtomicI32 = AtomicI32::new(0);
static Z_NEG: AtomicU32 = AtomicU32::new(0);
impl Drop for ZPay {
    fn drop(&mut self) {
        if Z_LIVE.fetch_sub(1, Ordering::SeqCst) <= 0 {
            Z_NEG.fetch_add(1, Ordering::SeqCst);
        }
    }
}

static FOREIGN_DROPS: AtomicU32 = AtomicU32::new(0);
static FOREIGN_BAD: AtomicU32 = AtomicU32::new(0);
static FOREIGN_LIVE: std::sync::Mutex<Vec<usize>> = std::sync::Mutex::new(Vec::new());

/// drop function of a box made by the simulated foreign module (its own arena = System directly)
unsafe extern "C" fn foreign_box_drop(p: *mut c_void) {
    FOREIGN_DROPS.fetch_add(1, Ordering::SeqCst);
    let mut live = FOREIGN_LIVE.lock().unwrap();
    match live.iter().position(|x| *x == p as usize) {
        Some(i) => {
            live.remove(i);
            drop(live);
            std::ptr::drop_in_place(p as *mut Pay);
            alloc::unregister_foreign(p as *const u8);
            std::alloc::GlobalAlloc::dealloc(&std::alloc::System, p as *mut u8, std::alloc::Layout::new::<Pay>());
        }
        None => {
            FOREIGN_BAD.fetch_add(1, Ordering::SeqCst);
        }
    }
}

/// The foreign module's slice box: an owned buffer (owned even when the slice it publishes is
/// empty) released by this function, which gets a pointer to the published {data, len} pair.
unsafe extern "C" fn foreign_slice_drop(s: *mut cview::SliceView<Pay>) {
    FOREIGN_DROPS.fetch_add(1, Ordering::SeqCst);
    let data = (*s).data as *mut Pay;
    let len = (*s).len;
    let mut live = FOREIGN_LIVE.lock().unwrap();
    match live.iter().position(|x| *x == data as usize) {
        Some(i) => {
            live.remove(i);
            drop(live);
            for k in 0..len {
                std::ptr::drop_in_place(data.add(k));
            }
            alloc::unregister_foreign(data as *const u8);
            std::alloc::GlobalAlloc::dealloc(&std::alloc::System, data as *mut u8, std::alloc::Layout::array::<Pay>(FOREIGN_SLICE_CAP).unwrap());
        }
        None => {
            FOREIGN_BAD.fetch_add(1, Ordering::SeqCst);
        }
    }
}
const FOREIGN_SLICE_CAP: usize = 4;

enum B {
    /// payload without drop glue: only the allocator can tell whether the box was released
    Plain(CBox<'static, [u64; 3]>),
    Box(CBox<'static, Pay>),
    Opaque(CBox<'static, gvoid>),
    ZBox(CBox<'static, ZPay>),
    /// non-empty slice of zero-sized elements with destructors: occupies no memory, owns n values
    ZSlice(CSliceBox<'static, ZPay>, i32),
    Slice(CSliceBox<'static, Pay>),
    OpaqueSlice(CSliceBox<'static, gvoid>),
}

struct Slot {
    b: B,
    ids: Vec<u32>,
    foreign: bool,
    /// C-made with `drop_fn = NULL`: the foreign module keeps ownership of the block and of the
    /// payload; Rust may use the box and must leave both alone when it drops it
    unowned: bool,
}

struct State {
    slots: Vec<Option<Slot>>,
    reg: Arc<Reg>,
    next_id: u32,
    z_expected: i32,
    /// payloads (and their blocks) of not-owned boxes that Rust has dropped: still alive, still
    /// the foreign module's
    kept: Vec<(u32, usize)>,
}

fn fresh(st: &mut State) -> (Pay, u32) {
    let id = st.next_id;
    st.next_id += 1;
    (Pay::new(id, &st.reg), id)
}

fn apply(st: &mut State, step: &Step, counts: &mut Vec<&'static str>) -> Result<String, Violation> {
    let n = st.slots.len() as i64;
    let sl = |v: i64| -> usize { v.rem_euclid(n) as usize };
    match step.op.as_str() {
        "BNew" => {
            let s = sl(step.arg(0));
            if st.slots[s].is_some() {
                return Ok("BNew noop".into());
            }
            let kind = step.arg(1).rem_euclid(11);
            let slot = match kind {
                0 => {
                    let (p, id) = fresh(st);
                    Slot { b: B::Box(track(|| CBox::from(p))), ids: vec![id], foreign: false, unowned: false }
                }
                1 => {
                    let (p, id) = fresh(st);
                    Slot { b: B::Box(track(|| CBox::from(Box::new(p)))), ids: vec![id], foreign: false, unowned: false }
                }
                2 => {
                    let (p, id) = fresh(st);
                    Slot { b: B::Box(track(|| CBox::from((p, NoContext::default())))), ids: vec![id], foreign: false, unowned: false }
                }
                3 => {
                    // made by the foreign module through the published layout
                    let (p, id) = fresh(st);
                    counts.push("fault.foreign_module");
                    let b = unsafe {
                        let mem = std::alloc::GlobalAlloc::alloc(&std::alloc::System, std::alloc::Layout::new::<Pay>()) as *mut Pay;
                        std::ptr::write(mem, p);
                        alloc::register_foreign(mem as *const u8, std::mem::size_of::<Pay>());
                        FOREIGN_LIVE.lock().unwrap().push(mem as usize);
                        cview::view::<BoxView, CBox<'static, Pay>>(BoxView { instance: mem as *mut c_void, drop_fn: Some(foreign_box_drop) })
                    };
                    Slot { b: B::Box(b), ids: vec![id], foreign: true, unowned: false }
                }
                9 => {
                    // a slice box made by the foreign module: 0..=2 elements in a buffer of its own
                    let len = step.arg(2).rem_euclid(3) as usize;
                    counts.push("fault.foreign_module");
                    if len == 0 {
                        counts.push("probe.empty_foreign_slice_box");
                    }
                    let mut ids = Vec::new();
                    let b = unsafe {
                        let mem = std::alloc::GlobalAlloc::alloc(&std::alloc::System, std::alloc::Layout::array::<Pay>(FOREIGN_SLICE_CAP).unwrap()) as *mut Pay;
                        for k in 0..len {
                            let (p, id) = fresh(st);
                            std::ptr::write(mem.add(k), p);
                            ids.push(id);
                        }
                        alloc::register_foreign(mem as *const u8, std::mem::size_of::<Pay>() * FOREIGN_SLICE_CAP);
                        FOREIGN_LIVE.lock().unwrap().push(mem as usize);
                        cview::view::<SliceBoxView<Pay>, CSliceBox<'static, Pay>>(SliceBoxView { instance: SliceView { data: mem, len }, drop_fn: Some(foreign_slice_drop) })
                    };
                    Slot { b: B::Slice(b), ids, foreign: true, unowned: false }
                }
                10 => {
                    // C-made, not owned: `drop_fn` is NULL
                    let (p, id) = fresh(st);
                    counts.push("fault.foreign_module");
                    counts.push("probe.c_made_box_without_drop_fn");
                    let b = unsafe {
                        let mem = std::alloc::GlobalAlloc::alloc(&std::alloc::System, std::alloc::Layout::new::<Pay>()) as *mut Pay;
                        std::ptr::write(mem, p);
                        alloc::register_foreign(mem as *const u8, std::mem::size_of::<Pay>());
                        FOREIGN_LIVE.lock().unwrap().push(mem as usize);
                        cview::view::<BoxView, CBox<'static, Pay>>(BoxView { instance: mem as *mut c_void, drop_fn: None })
                    };
                    Slot { b: B::Box(b), ids: vec![id], foreign: true, unowned: true }
                }
                7 => {
                    let v = [step.arg(2) as u64, 0x1122_3344, !0u64];
                    Slot { b: B::Plain(track(|| if step.arg(2) & 1 == 0 { CBox::from(v) } else { CBox::from(Box::new(v)) })), ids: vec![], foreign: false, unowned: false }
                }
                4 => {
                    Z_LIVE.fetch_add(1, Ordering::SeqCst);
                    st.z_expected += 1;
                    Slot { b: B::ZBox(track(|| CBox::from(ZPay))), ids: vec![], foreign: false, unowned: false }
                }
                8 => {
                    let n = step.arg(2).rem_euclid(4) as i32 + 1;
                    Z_LIVE.fetch_add(n, Ordering::SeqCst);
                    st.z_expected += n;
                    let v: Vec<ZPay> = (0..n).map(|_| ZPay).collect();
                    Slot { b: B::ZSlice(track(|| CSliceBox::from(v.into_boxed_slice())), n), ids: vec![], foreign: false, unowned: false }
                }
                _ => {
                    let len = step.arg(2).clamp(0, 5) as usize;
                    let mut ids = Vec::new();
                    let mut v = Vec::new();
                    for _ in 0..len {
                        let (p, id) = fresh(st);
                        v.push(p);
                        ids.push(id);
                    }
                    if len == 0 {
                        counts.push("probe.empty_slice_box");
                    }
                    Slot { b: B::Slice(track(|| CSliceBox::from(v.into_boxed_slice()))), ids, foreign: false, unowned: false }
                }
            };
            st.slots[s] = Some(slot);
            Ok(format!("BNew slot={} kind={}", s, kind))
        }
        "BRead" => {
            let s = sl(step.arg(0));
            let party = step.arg(1) & 1;
            let Some(slot) = st.slots[s].as_ref() else { return Ok("BRead noop".into()) };
            let got: Vec<u32> = unsafe {
                match &slot.b {
                    B::Box(b) => {
                        if party == 1 {
                            let v: BoxView = std::ptr::read(b as *const _ as *const BoxView);
                            vec![(*(v.instance as *const Pay)).id]
                        } else {
                            vcheck!(b.ok(), "box.payload_corrupt", "deref", "payload heap state corrupted");
                            vec![b.id]
                        }
                    }
                    B::Opaque(b) => {
                        let v: BoxView = std::ptr::read(b as *const _ as *const BoxView);
                        vec![(*(v.instance as *const Pay)).id]
                    }
                    B::ZBox(_) => vec![],
                    B::ZSlice(b, n) => {
                        vcheck!(b.len() == *n as usize, "box.deref_wrong_value", "zslice", "slice of {} zero-sized elements reads back with length {}", n, b.len());
                        vec![]
                    }
                    B::Plain(b) => {
                        vcheck!(b[1] == 0x1122_3344 && b[2] == !0u64, "box.deref_wrong_value", "plain", "plain payload corrupted");
                        vec![]
                    }
                    B::Slice(b) => {
                        if party == 1 {
                            let v: SliceBoxView<Pay> = std::ptr::read(b as *const _ as *const SliceBoxView<Pay>);
                            (0..v.instance.len).map(|i| (*v.instance.data.add(i)).id).collect()
                        } else {
                            b.iter().map(|p| p.id).collect()
                        }
                    }
                    B::OpaqueSlice(b) => {
                        let v: SliceBoxView<Pay> = std::ptr::read(b as *const _ as *const SliceBoxView<Pay>);
                        (0..v.instance.len).map(|i| (*v.instance.data.add(i)).id).collect()
                    }
                }
            };
            if party == 1 {
                counts.push("party.c");
            }
            vcheck!(got == slot.ids, "box.deref_wrong_value", if party == 1 { "read:C" } else { "read:Rust" }, "box reads payload(s) {:?}, model {:?}", got, slot.ids);
            Ok(format!("BRead slot={} -> {:?}", s, got))
        }
        "BWrite" => {
            let s = sl(step.arg(0));
            let Some(slot) = st.slots[s].as_mut() else { return Ok("BWrite noop".into()) };
            match &mut slot.b {
                B::Box(b) => {
                    b.val = b.val.wrapping_add(1);
                    let v = b.val;
                    let r: &Pay = b;
                    vcheck!(r.val == v, "box.deref_wrong_value", "deref_mut", "write through DerefMut not visible through Deref");
                    Ok(format!("BWrite slot={}", s))
                }
                B::Slice(b) if !b.is_empty() => {
                    let i = step.arg(1).rem_euclid(b.len() as i64) as usize;
                    b[i].val += 1;
                    Ok(format!("BWrite slot={} idx={}", s, i))
                }
                _ => Ok("BWrite noop".into()),
            }
        }
        "BOpaque" => {
            let s = sl(step.arg(0));
            let Some(slot) = st.slots[s].take() else { return Ok("BOpaque noop".into()) };
            let Slot { b, ids, foreign, unowned } = slot;
            let b = match b {
                B::Box(x) => B::Opaque(track(|| x.into_opaque())),
                B::Slice(x) => B::OpaqueSlice(track(|| x.into_opaque())),
                B::Opaque(x) => B::Box(unsafe { std::mem::transmute::<CBox<'static, gvoid>, CBox<'static, Pay>>(x) }),
                B::OpaqueSlice(x) => B::Slice(unsafe { std::mem::transmute::<CSliceBox<'static, gvoid>, CSliceBox<'static, Pay>>(x) }),
                other => other,
            };
            st.slots[s] = Some(Slot { b, ids, foreign, unowned });
            Ok(format!("BOpaque slot={}", s))
        }
        "BInner" => {
            let s = sl(step.arg(0));
            let ok = matches!(st.slots[s].as_ref(), Some(Slot { b: B::Box(_), foreign: false, .. }));
            if !ok {
                return Ok("BInner noop".into());
            }
            let slot = st.slots[s].take().unwrap();
            let B::Box(b) = slot.b else { unreachable!() };
            let inner: Pay = unsafe { track(|| b.into_inner()) };
            vcheck!(inner.id == slot.ids[0] && inner.ok(), "box.deref_wrong_value", "into_inner", "into_inner returned payload {} (model {:?})", inner.id, slot.ids);
            // the value is alive, the box memory is gone
            let live = st.reg.live[inner.id as usize].load(Ordering::SeqCst);
            vcheck!(live == 1, "box.drop_mismatch", "into_inner", "after into_inner the payload has {} live instance(s)", live);
            track(|| drop(inner));
            Ok(format!("BInner slot={}", s))
        }
        "BDrop" => {
            let s = sl(step.arg(0));
            let party = step.arg(1) & 1;
            let Some(slot) = st.slots[s].take() else { return Ok("BDrop noop".into()) };
            if matches!(slot.b, B::ZBox(_)) {
                st.z_expected -= 1;
            }
            if let B::ZSlice(_, n) = &slot.b {
                st.z_expected -= *n;
            }
            if slot.unowned {
                // whoever drops it: payload and block stay with the foreign module
                let ptr = match &slot.b {
                    B::Box(x) => unsafe { std::ptr::read(x as *const _ as *const BoxView).instance as usize },
                    B::Opaque(x) => unsafe { std::ptr::read(x as *const _ as *const BoxView).instance as usize },
                    _ => 0,
                };
                st.kept.push((slot.ids[0], ptr));
            }
            if party == 1 {
                counts.push("party.c");
                unsafe {
                    match slot.b {
                        B::Box(x) => track(|| cview::view::<_, BoxView>(x).c_drop()),
                        B::Opaque(x) => track(|| cview::view::<_, BoxView>(x).c_drop()),
                        B::ZBox(x) => track(|| cview::view::<_, BoxView>(x).c_drop()),
                        B::Plain(x) => track(|| cview::view::<_, BoxView>(x).c_drop()),
                        B::Slice(x) => {
                            let mut v: SliceBoxView<Pay> = cview::view(x);
                            if let Some(f) = v.drop_fn {
                                track(|| f(&mut v.instance as *mut SliceView<Pay>));
                            }
                        }
                        B::ZSlice(x, _) => {
                            let mut v: SliceBoxView<ZPay> = cview::view(x);
                            if let Some(f) = v.drop_fn {
                                track(|| f(&mut v.instance as *mut SliceView<ZPay>));
                            }
                        }
                        B::OpaqueSlice(x) => {
                            let mut v: SliceBoxView<Pay> = cview::view(x);
                            if let Some(f) = v.drop_fn {
                                track(|| f(&mut v.instance as *mut SliceView<Pay>));
                            }
                        }
                    }
                }
            } else {
                track(|| drop(slot.b));
            }
            Ok(format!("BDrop slot={} party={}", s, party))
        }
        "Tags" => {
            // option / result / slice layouts as a C caller sees them
            let x = step.arg(0) as u64 ^ 0x1234_5678_9abc_def0;
            let some: COption<u64> = Some(x).into();
            let v: OptionView<u64> = unsafe { std::ptr::read(&some as *const _ as *const OptionView<u64>) };
            vcheck!(v.tag == 1 && v.some == x, "layout.option", "COption", "Some({:#x}) seen from C as tag={} payload={:#x}", x, v.tag, v.some);
            let none: COption<u64> = None.into();
            // (a C caller reads the tag first; the payload of None is no value at all)
            let tag: u32 = unsafe { std::ptr::read(&none as *const _ as *const u32) };
            vcheck!(tag == 0, "layout.option", "COption", "None seen from C as tag={}", tag);
            let made: COption<u64> = unsafe { cview::view(OptionView { tag: 1u32, some: x }) };
            vcheck!(Option::from(made) == Some(x), "layout.option", "COption", "C-made Some not read back");
            let made: COption<u64> = unsafe { cview::view(OptionView { tag: 0u32, some: 0u64 }) };
            vcheck!(Option::<u64>::from(made).is_none(), "layout.option", "COption", "C-made None not read back");
            let ok: CResult<u64, i32> = Ok(x).into();
            let v: ResultView<u64, i32> = unsafe { std::ptr::read(&ok as *const _ as *const ResultView<u64, i32>) };
            vcheck!(v.tag == 0 && unsafe { v.payload.ok } == x, "layout.result", "CResult", "Ok seen from C as tag={}", v.tag);
            let e = step.arg(0) as i32;
            let err: CResult<u64, i32> = Err(e).into();
            let v: ResultView<u64, i32> = unsafe { std::ptr::read(&err as *const _ as *const ResultView<u64, i32>) };
            vcheck!(v.tag == 1 && unsafe { v.payload.err } == e, "layout.result", "CResult", "Err seen from C as tag={}", v.tag);
            let made: CResult<u64, i32> = unsafe { cview::view(ResultView { tag: 1u32, payload: ResultPayload::<u64, i32> { err: e } }) };
            vcheck!(Result::from(made) == Err::<u64, i32>(e), "layout.result", "CResult", "C-made Err not read back");
            let made: CResult<u64, i32> = unsafe { cview::view(ResultView { tag: 0u32, payload: ResultPayload::<u64, i32> { ok: x } }) };
            vcheck!(Result::from(made) == Ok::<u64, i32>(x), "layout.result", "CResult", "C-made Ok not read back");
            // slices
            let len = step.arg(1).clamp(0, 9) as usize;
            let mut buf: Vec<u32> = (0..len as u32).map(|i| (i * 7).wrapping_add(e as u32)).collect();
            let want = buf.clone();
            let r = CSliceRef::from(&buf[..]);
            let v: SliceView<u32> = unsafe { std::ptr::read(&r as *const _ as *const SliceView<u32>) };
            vcheck!(v.len == len && v.data as *const u32 == buf.as_ptr(), "layout.slice", "CSliceRef", "CSliceRef seen from C as len={}", v.len);
            let made: CSliceRef<u32> = unsafe { cview::view(SliceView { data: buf.as_ptr() as *mut u32, len }) };
            vcheck!(made.as_slice() == &want[..], "layout.slice", "CSliceRef", "C-made slice reads {:?}", made.as_slice());
            let bp = buf.as_mut_ptr();
            let mut m = CSliceMut::from(&mut buf[..]);
            let v: SliceView<u32> = unsafe { std::ptr::read(&m as *const _ as *const SliceView<u32>) };
            vcheck!(v.len == len && v.data == bp, "layout.slice", "CSliceMut", "CSliceMut seen from C as len={}", v.len);
            if len > 0 {
                unsafe { *v.data.add(len - 1) = 99 };
                vcheck!(m.as_slice_mut()[len - 1] == 99, "layout.slice", "CSliceMut", "write by the C party not visible");
            }
            // tuples: fields in declaration order (struct CTup2 { a; b; }), mixed alignments
            {
                use cglue::tuple::{CTup2, CTup3, CTup4};
                #[repr(C)]
                #[derive(Clone, Copy)]
                struct T2 { a: u8, b: u64 }
                #[repr(C)]
                #[derive(Clone, Copy)]
                struct T3 { a: u32, b: u8, c: u64 }
                #[repr(C)]
                #[derive(Clone, Copy)]
                struct T4 { a: u8, b: u16, c: u32, d: u64 }
                let t2: CTup2<u8, u64> = (7u8, x).into();
                let v: T2 = unsafe { std::ptr::read(&t2 as *const _ as *const T2) };
                vcheck!(cview::same_size::<CTup2<u8, u64>, T2>() && v.a == 7 && v.b == x, "layout.tuple", "CTup2", "CTup2 seen from C as ({}, {:#x})", v.a, v.b);
                let made: CTup2<u8, u64> = unsafe { cview::view(T2 { a: 9, b: x ^ 1 }) };
                vcheck!(made.into_tuple() == (9u8, x ^ 1), "layout.tuple", "CTup2", "C-made CTup2 not read back");
                let t3: CTup3<u32, u8, u64> = (e as u32, 3u8, x).into();
                let v: T3 = unsafe { std::ptr::read(&t3 as *const _ as *const T3) };
                vcheck!(cview::same_size::<CTup3<u32, u8, u64>, T3>() && v.a == e as u32 && v.b == 3 && v.c == x, "layout.tuple", "CTup3", "CTup3 field order differs from the C declaration");
                let t4: CTup4<u8, u16, u32, u64> = (1u8, 2u16, e as u32, x).into();
                let v: T4 = unsafe { std::ptr::read(&t4 as *const _ as *const T4) };
                vcheck!(cview::same_size::<CTup4<u8, u16, u32, u64>, T4>() && v.a == 1 && v.b == 2 && v.c == e as u32 && v.d == x, "layout.tuple", "CTup4", "CTup4 field order differs from the C declaration");
                let back: (u8, u16, u32, u64) = t4.into();
                vcheck!(back == (1, 2, e as u32, x), "layout.tuple", "CTup4", "CTup4 -> tuple changed a field");
            }
            // option / result with payloads of other sizes and alignments (tag first, payload at its alignment)
            {
                let o8: COption<u8> = Some(0xAB).into();
                let v: OptionView<u8> = unsafe { std::ptr::read(&o8 as *const _ as *const OptionView<u8>) };
                vcheck!(cview::same_size::<COption<u8>, OptionView<u8>>() && v.tag == 1 && v.some == 0xAB, "layout.option", "COption<u8>", "COption<u8> seen from C as tag={} payload={:#x}", v.tag, v.some);
                let r: CResult<u8, u64> = Err(x).into();
                let v: ResultView<u8, u64> = unsafe { std::ptr::read(&r as *const _ as *const ResultView<u8, u64>) };
                vcheck!(cview::same_size::<CResult<u8, u64>, ResultView<u8, u64>>() && v.tag == 1 && unsafe { v.payload.err } == x, "layout.result", "CResult<u8,u64>", "Err payload misplaced");
                let r: CResult<u8, u64> = Ok(0x5C).into();
                let v: ResultView<u8, u64> = unsafe { std::ptr::read(&r as *const _ as *const ResultView<u8, u64>) };
                vcheck!(v.tag == 0 && unsafe { v.payload.ok } == 0x5C, "layout.result", "CResult<u8,u64>", "Ok payload misplaced");
                vcheck!(r.is_ok() && !r.is_err(), "layout.result", "CResult", "is_ok/is_err disagree with the variant");
            }
            // strings: {data,len} of the bytes; str conversions refuse exactly invalid UTF-8
            {
                use std::convert::TryFrom;
                let text = ["", "a", "héllo", "日本"][step.arg(1).rem_euclid(4) as usize];
                let r = CSliceRef::from(text);
                let v: SliceView<u8> = unsafe { std::ptr::read(&r as *const _ as *const SliceView<u8>) };
                vcheck!(v.len == text.len() && v.data as *const u8 == text.as_ptr(), "layout.slice", "CSliceRef<u8> from str", "str seen from C as len={} (bytes {})", v.len, text.len());
                let back = <&str>::try_from(r);
                vcheck!(back.ok() == Some(text), "layout.slice", "str round trip", "str did not round-trip through CSliceRef");
                let bad: [u8; 3] = [b'a', 0xFF, b'b'];
                let r = CSliceRef::from(&bad[..]);
                vcheck!(<&str>::try_from(r).is_err(), "layout.slice", "utf8", "invalid UTF-8 was accepted as &str");
            }
            {
                // what a C caller naturally builds for "no elements": {NULL, 0}
                counts.push("probe.c_made_null_empty_slice");
                let r: CSliceRef<u32> = unsafe { cview::view(SliceView::<u32> { data: std::ptr::null_mut(), len: 0 }) };
                vcheck!(r.len() == 0 && r.is_empty(), "layout.slice", "C-made {NULL, 0}", "C-made empty slice reports len {}", r.len());
                let n = r.as_slice().len() + r.iter().count();
                let back: &[u32] = r.into();
                vcheck!(n == 0 && back.is_empty(), "layout.slice", "C-made {NULL, 0}", "C-made empty slice reads back {} element(s)", n + back.len());
                let r: CSliceRef<u8> = unsafe { cview::view(SliceView::<u8> { data: std::ptr::null_mut(), len: 0 }) };
                vcheck!(<&str>::try_from(r) == Ok(""), "layout.slice", "C-made {NULL, 0}", "C-made empty byte slice is not the empty string");
                let m: CSliceMut<u64> = unsafe { cview::view(SliceView::<u64> { data: std::ptr::null_mut(), len: 0 }) };
                let k = m.as_slice().len() + m.iter().count();
                let back: &mut [u64] = m.into();
                vcheck!(k == 0 && back.is_empty(), "layout.slice", "C-made {NULL, 0}", "C-made empty mutable slice reads back {} element(s)", k + back.len());
            }
            {
                // an empty slice that does point somewhere (a cursor at the end of a buffer, an
                // empty match inside a text) keeps its position in both directions, whoever made it
                let buf: [u32; 6] = [1, 2, 3, 4, 5, 6];
                let k = (step.arg(1).rem_euclid(7)) as usize;
                let at = unsafe { buf.as_ptr().add(k) };
                let r = CSliceRef::from(&buf[k..k]);
                let v: SliceView<u32> = unsafe { std::ptr::read(&r as *const _ as *const SliceView<u32>) };
                vcheck!(v.data as *const u32 == at && v.len == 0, "layout.slice", "empty slice", "&buf[{}..{}] seen from C as data at offset {:?}, len {}", k, k, (v.data as usize).wrapping_sub(buf.as_ptr() as usize) / 4, v.len);
                vcheck!(r.as_slice().as_ptr() == at, "layout.slice", "empty slice", "an empty CSliceRef at offset {} reads back at another address", k);
                let made: CSliceRef<u32> = unsafe { cview::view(SliceView::<u32> { data: at as *mut u32, len: 0 }) };
                let back: &[u32] = made.into();
                vcheck!(back.as_ptr() == at && back.is_empty(), "layout.slice", "empty slice", "a C-made empty slice {{buf+{}, 0}} reads back at another address", k);
                let text = "key=value";
                let e = &text[4..4];
                let back = <&str>::try_from(CSliceRef::from(e)).unwrap_or("?");
                vcheck!(back.as_ptr() == e.as_ptr() && back.is_empty(), "layout.slice", "empty str", "an empty &str inside a text reads back at another address");
            }
            Ok("Tags".into())
        }
        _ => Ok(format!("unknown-op {}", step.op)),
    }
}

fn check(st: &State, when: &str) -> VResult {
    vcheck!(st.reg.negative.load(Ordering::SeqCst) == 0, "box.double_drop", "payload", "{}: a payload was destroyed more often than it was created", when);
    vcheck!(st.reg.poison.load(Ordering::SeqCst) == 0, "box.fabricated", "payload", "{}: a payload with an impossible id was destroyed", when);
    let mut want = vec![0i32; st.next_id as usize];
    for s in st.slots.iter().flatten() {
        for id in &s.ids {
            want[*id as usize] += 1;
        }
    }
    for (id, _) in &st.kept {
        want[*id as usize] += 1;
    }
    for id in 0..st.next_id {
        let live = st.reg.live[id as usize].load(Ordering::SeqCst);
        vcheck!(live == want[id as usize], "box.drop_mismatch", "payload", "{}: payload {} has {} live instance(s), the model expects {}", when, id, live, want[id as usize]);
    }
    vcheck!(Z_NEG.load(Ordering::SeqCst) == 0 && Z_LIVE.load(Ordering::SeqCst) == st.z_expected, "box.drop_mismatch", "zst", "{}: zero-sized payloads: {} live, model expects {}", when, Z_LIVE.load(Ordering::SeqCst), st.z_expected);
    vcheck!(FOREIGN_BAD.load(Ordering::SeqCst) == 0, "box.foreign_books", "drop_fn", "{}: the foreign module's drop function was called for a box it does not own (double drop)", when);
    let foreign_live = st.slots.iter().flatten().filter(|s| s.foreign).count() + st.kept.len();
    vcheck!(FOREIGN_LIVE.lock().unwrap().len() == foreign_live, "box.foreign_books", "drop_fn", "{}: foreign module has {} live box(es), the model {}", when, FOREIGN_LIVE.lock().unwrap().len(), foreign_live);
    simcore::check_alloc("box")
}

fn state_hash(st: &State) -> u64 {
    let mut h = Fnv::new();
    for s in &st.slots {
        match s {
            None => h.u64(0xff),
            Some(s) => {
                h.u64(match s.b { B::Box(_) => 1, B::Opaque(_) => 2, B::ZBox(_) => 3, B::Slice(_) => 4, B::OpaqueSlice(_) => 5, B::Plain(_) => 6, B::ZSlice(..) => 7 });
                h.u64(s.ids.len() as u64);
                h.u64(s.foreign as u64);
            }
        }
    }
    h.0
}

const OPS: [&str; 7] = ["BNew", "BRead", "BWrite", "BOpaque", "BInner", "BDrop", "Tags"];

impl Engine for CBoxEngine {
    fn name(&self) -> &'static str {
        "cbox"
    }

    fn gen(&self, rng: &mut Rng, _thorough: bool) -> Plan {
        let mut p = Plan::new("cbox");
        let pool = rng.range(1, 4);
        let threads = rng.range(1, 3);
        p.set("pool", pool);
        p.set("threads", threads);
        let max_steps = if rng.chance(1, 2) { rng.range(2, 8) } else { rng.range(8, 30) };
        let mut w: Vec<u32> = vec![12, 6, 4, 5, 4, 10, 2];
        for i in 1..w.len() {
            if rng.chance(1, 6) {
                w[i] = 0;
            }
        }
        let c_party = rng.chance(1, 2) || simcore::force_c_party();
        for _ in 0..max_steps {
            let t = rng.below(threads as u64) as u8;
            let op = OPS[rng.weighted(&w)];
            let s0 = rng.below(pool as u64) as i64;
            let party = if c_party && rng.chance(1, 3) { 1 } else { 0 };
            match op {
                "BNew" => p.push(t, op, &[s0, rng.range(0, 10), rng.range(0, 4)]),
                "BRead" | "BDrop" => p.push(t, op, &[s0, party]),
                "BWrite" => p.push(t, op, &[s0, rng.range(0, 4)]),
                "Tags" => p.push(t, op, &[*rng.pick(&[0, 1, -1, i32::MAX as i64, i32::MIN as i64, 77]), rng.range(0, 6)]),
                _ => p.push(t, op, &[s0]),
            }
        }
        p
    }

    fn exec(&self, plan: &Plan, ctx: &mut RunCtx) -> VResult {
        vcheck!(cview::same_size::<CBox<Pay>, BoxView>() && cview::same_size::<CSliceBox<Pay>, SliceBoxView<Pay>>() && cview::same_size::<CSliceRef<u32>, SliceView<u32>>(),
            "layout.box", "size", "CBox / CSliceBox / CSliceRef no longer have the published layout");
        let npool = plan.cfg("pool", 2).clamp(1, 6) as usize;
        Z_LIVE.store(0, Ordering::SeqCst);
        Z_NEG.store(0, Ordering::SeqCst);
        FOREIGN_BAD.store(0, Ordering::SeqCst);
        FOREIGN_LIVE.lock().unwrap().clear();
        let mut st = State { slots: (0..npool).map(|_| None).collect(), reg: Reg::new(), next_id: 0, z_expected: 0, kept: Vec::new() };
        let mut result: VResult = Ok(());
        for (i, step) in plan.steps.iter().enumerate() {
            ctx.cur_step = i as i64;
            alloc::set_step(i as i64);
            let mut counts: Vec<&'static str> = Vec::new();
            let stp = SendMut(&mut st as *mut State);
            let r = ctx.baton.on(step.t, || {
                let stp = stp;
                apply(unsafe { &mut *stp.0 }, step, &mut counts)
            });
            if step.t != 0 {
                ctx.count("fault.cross_thread_op");
            }
            for c in counts {
                ctx.count(c);
            }
            let line = match r {
                Ok(l) => l,
                Err(mut v) => {
                    v.step = i as i64;
                    result = Err(v);
                    break;
                }
            };
            if !line.contains("noop") {
                ctx.count(&format!("op.{}", step.op));
                ctx.effective(!matches!(step.op.as_str(), "BRead" | "Tags"));
            }
            ctx.log(&format!("s{} t{} {}", i, step.t, line));
            if let Err(mut v) = check(&st, &format!("after step {} ({})", i, step.text())) {
                v.step = i as i64;
                result = Err(v);
                break;
            }
            ctx.reach(state_hash(&st), plan.steps.get(i + 1).map(|s| s.op.as_str()));
        }
        if result.is_err() {
            std::mem::forget(st);
            return result;
        }
        ctx.cur_step = -1;
        alloc::set_step(-1);
        for s in st.slots.iter_mut() {
            if let Some(slot) = s.take() {
                if matches!(slot.b, B::ZBox(_)) {
                    st.z_expected -= 1;
                }
                if let B::ZSlice(_, n) = &slot.b {
                    st.z_expected -= *n;
                }
                if slot.unowned {
                    let ptr = match &slot.b {
                        B::Box(x) => unsafe { std::ptr::read(x as *const _ as *const BoxView).instance as usize },
                        B::Opaque(x) => unsafe { std::ptr::read(x as *const _ as *const BoxView).instance as usize },
                        _ => 0,
                    };
                    st.kept.push((slot.ids[0], ptr));
                }
                track(|| drop(slot.b));
            }
        }
        check(&st, "at quiescence")?;
        // the foreign module now releases what it never gave away
        for (_, ptr) in std::mem::take(&mut st.kept) {
            unsafe { foreign_box_drop(ptr as *mut c_void) };
        }
        check(&st, "after the foreign module released its not-owned boxes")?;
        simcore::check_no_leak("box")
    }
}

struct SendMut<T>(*mut T);
unsafe impl<T> Send for SendMut<T> {}
impl<T> Clone for SendMut<T> {
    fn clone(&self) -> Self {
        SendMut(self.0)
    }
}
impl<T> Copy for SendMut<T> {}
