//! C19: wakers crossing the boundary. A future / stream / sink object made with `trait_obj!` is
//! polled with a counting Arc-based waker; the polled value is the simulated plugin: inside the
//! poll it runs the plan's waker ops on `cx.waker()`, and retained handles are cloned, woken and
//! dropped after the poll, after the object is gone, and from other threads.

use cglue::*;
use futures::{Sink, Stream};
use simcore::alloc::track;
use simcore::{vcheck, Engine, Fnv, Plan, Rng, RunCtx, Step, VResult, Violation};
use std::future::Future;
use std::pin::Pin;
use std::sync::atomic::{AtomicU32, AtomicU64, Ordering};
use std::sync::{Arc, Mutex, Weak};
use std::task::{Context, Poll, Wake, Waker};

pub struct WakerEngine;

struct SendPtr(*const CountWaker);
unsafe impl Send for SendPtr {}
impl SendPtr {
    fn get(&self) -> *const CountWaker {
        self.0
    }
}

struct CountWaker {
    wakes: AtomicU64,
    drops: Arc<AtomicU32>,
    /// what the caller's executor does when it is woken (e.g. drops or wakes a waker it stored):
    /// operations on the retained foreign-side handles, run re-entrantly inside the wake
    reactions: Mutex<Vec<WOp>>,
    pool: Mutex<Option<Arc<Mutex<Shared>>>>,
}
impl CountWaker {
    fn react(&self) {
        let ops: Vec<WOp> = std::mem::take(&mut *self.reactions.lock().unwrap());
        if ops.is_empty() {
            return;
        }
        let pool = self.pool.lock().unwrap().clone();
        if let Some(sh) = pool {
            for op in ops {
                run_wop(&sh, op, None);
                sh.lock().unwrap().reentrant += 1;
            }
        }
    }
}
impl Wake for CountWaker {
    fn wake(self: Arc<Self>) {
        self.wakes.fetch_add(1, Ordering::SeqCst);
        self.react();
    }
    fn wake_by_ref(self: &Arc<Self>) {
        self.wakes.fetch_add(1, Ordering::SeqCst);
        self.react();
    }
}
impl Drop for CountWaker {
    fn drop(&mut self) {
        self.drops.fetch_add(1, Ordering::SeqCst);
    }
}

/// A caller waker whose state lives in statics: its RawWaker data pointer is null (legitimate:
/// executors with a single global run queue do this). Clones and wakes are counted in statics.
static S_LIVE: std::sync::atomic::AtomicI64 = std::sync::atomic::AtomicI64::new(0);
static S_WAKES: AtomicU64 = AtomicU64::new(0);
static S_VTABLE: std::task::RawWakerVTable = std::task::RawWakerVTable::new(
    |_| {
        S_LIVE.fetch_add(1, Ordering::SeqCst);
        std::task::RawWaker::new(std::ptr::null(), &S_VTABLE)
    },
    |_| {
        S_WAKES.fetch_add(1, Ordering::SeqCst);
        S_LIVE.fetch_sub(1, Ordering::SeqCst);
    },
    |_| {
        S_WAKES.fetch_add(1, Ordering::SeqCst);
    },
    |_| {
        S_LIVE.fetch_sub(1, Ordering::SeqCst);
    },
);
fn static_waker() -> Waker {
    S_LIVE.store(1, Ordering::SeqCst);
    S_WAKES.store(0, Ordering::SeqCst);
    unsafe { Waker::from_raw(std::task::RawWaker::new(std::ptr::null(), &S_VTABLE)) }
}

/// A caller waker with one record per clone: `clone` hands out a new data pointer, every record is
/// released exactly once, and a wake must arrive through a record that is still live (executors
/// that keep a list node per waker do this). Records live in statics and are never freed, so a
/// wake or release through a dead record is recorded instead of crashing.
const N_RECS: usize = 512;
static N_LIVE: [AtomicU32; N_RECS] = [const { AtomicU32::new(0) }; N_RECS];
static N_NEXT: AtomicU32 = AtomicU32::new(0);
static N_WAKES: AtomicU64 = AtomicU64::new(0);
static N_STALE: AtomicU32 = AtomicU32::new(0);
fn n_rec(data: *const ()) -> &'static AtomicU32 {
    unsafe { &*(data as *const AtomicU32) }
}
fn n_new() -> *const () {
    let i = N_NEXT.fetch_add(1, Ordering::SeqCst) as usize % N_RECS;
    N_LIVE[i].store(1, Ordering::SeqCst);
    &N_LIVE[i] as *const AtomicU32 as *const ()
}
static N_VTABLE: std::task::RawWakerVTable = std::task::RawWakerVTable::new(
    |d| {
        if n_rec(d).load(Ordering::SeqCst) == 0 {
            N_STALE.fetch_add(1, Ordering::SeqCst);
        }
        std::task::RawWaker::new(n_new(), &N_VTABLE)
    },
    |d| {
        N_WAKES.fetch_add(1, Ordering::SeqCst);
        if n_rec(d).swap(0, Ordering::SeqCst) == 0 {
            N_STALE.fetch_add(1, Ordering::SeqCst);
        }
    },
    |d| {
        N_WAKES.fetch_add(1, Ordering::SeqCst);
        if n_rec(d).load(Ordering::SeqCst) == 0 {
            N_STALE.fetch_add(1, Ordering::SeqCst);
        }
    },
    |d| {
        if n_rec(d).swap(0, Ordering::SeqCst) == 0 {
            N_STALE.fetch_add(1, Ordering::SeqCst);
        }
    },
);
fn n_live() -> i64 {
    N_LIVE.iter().filter(|r| r.load(Ordering::SeqCst) != 0).count() as i64
}
fn node_waker() -> Waker {
    for r in N_LIVE.iter() {
        r.store(0, Ordering::SeqCst);
    }
    N_NEXT.store(0, Ordering::SeqCst);
    N_WAKES.store(0, Ordering::SeqCst);
    N_STALE.store(0, Ordering::SeqCst);
    unsafe { Waker::from_raw(std::task::RawWaker::new(n_new(), &N_VTABLE)) }
}

/// The caller as a *foreign module*: it does not go through the Rust `Future` impl of the object
/// but calls the vtable's poll entry itself, with a by-reference waker it built through the
/// published C layout ({raw words, clone function, wake_by_ref function}; an owned waker is
/// {raw words, vtable of clone/wake/wake_by_ref/drop}). Its two raw words are its own business
/// (a record pointer and a tag) — they are NOT a Rust `Waker`; the records are the N_* ones.
const F_TAG: usize = 0xF0F0_F0F0_F0F0;
#[repr(transparent)]
#[derive(Clone, Copy)]
struct FWords {
    w: [*const (); 2],
}
#[repr(C)]
struct FOwned {
    waker: FWords,
    vtable: &'static FVtbl,
}
#[repr(C)]
struct FVtbl {
    clone: unsafe extern "C" fn(FWords) -> FOwned,
    wake: unsafe extern "C" fn(FWords),
    wake_by_ref: unsafe extern "C" fn(FWords),
    drop: unsafe extern "C" fn(FWords),
}
#[repr(C)]
struct FRef {
    raw: *const FWords,
    clone: unsafe extern "C" fn(*const ()) -> FOwned,
    wake_by_ref: unsafe extern "C" fn(*const ()),
}
fn f_check(w: FWords) {
    if w.w[1] as usize != F_TAG || n_rec(w.w[0]).load(Ordering::SeqCst) == 0 {
        N_STALE.fetch_add(1, Ordering::SeqCst);
    }
}
unsafe extern "C" fn fv_clone(w: FWords) -> FOwned {
    f_check(w);
    FOwned { waker: FWords { w: [n_new(), F_TAG as *const ()] }, vtable: &F_VTBL }
}
unsafe extern "C" fn fv_wake(w: FWords) {
    N_WAKES.fetch_add(1, Ordering::SeqCst);
    if w.w[1] as usize != F_TAG || n_rec(w.w[0]).swap(0, Ordering::SeqCst) == 0 {
        N_STALE.fetch_add(1, Ordering::SeqCst);
    }
}
unsafe extern "C" fn fv_wake_by_ref(w: FWords) {
    N_WAKES.fetch_add(1, Ordering::SeqCst);
    f_check(w);
}
unsafe extern "C" fn fv_drop(w: FWords) {
    if w.w[1] as usize != F_TAG || n_rec(w.w[0]).swap(0, Ordering::SeqCst) == 0 {
        N_STALE.fetch_add(1, Ordering::SeqCst);
    }
}
/// the by-reference waker as the plugin sees it (same layout as FRef, raw result type)
#[repr(C)]
struct FRefRaw {
    raw: *const FWords,
    clone: unsafe extern "C" fn(*const ()) -> FOwnedRaw,
    wake_by_ref: unsafe extern "C" fn(*const ()),
}
impl FVtbl {
    fn clone_raw(&self) -> unsafe extern "C" fn(FWords) -> FOwnedRaw {
        unsafe { std::mem::transmute(self.clone) }
    }
}
static F_VTBL: FVtbl = FVtbl { clone: fv_clone, wake: fv_wake, wake_by_ref: fv_wake_by_ref, drop: fv_drop };
unsafe extern "C" fn fr_clone(p: *const ()) -> FOwned {
    fv_clone(*(p as *const FWords))
}
unsafe extern "C" fn fr_wake_by_ref(p: *const ()) {
    fv_wake_by_ref(*(p as *const FWords))
}

const NH: usize = 6;


// ------------------------------------------------------------------------------------------------
// several tasks: a small self-contained simulation inside one step. Up to three caller wakers,
// told apart by vtable only (same data pointer), by data pointer only (same vtable) or by both,
// poll one future object in turn; the future keeps a clone of whatever waker each poll brought.
// Books are per caller waker: a handle obtained in a poll with waker k (and every clone of it)
// wakes k and only k, and holds one clone of k until it is released.
// ------------------------------------------------------------------------------------------------
const TK: usize = 3;
static T_LIVE: [[std::sync::atomic::AtomicI64; TK]; TK] = [const { [const { std::sync::atomic::AtomicI64::new(0) }; TK] }; TK];
static T_WAKES: [[AtomicU64; TK]; TK] = [const { [const { AtomicU64::new(0) }; TK] }; TK];
fn t_idx(d: *const ()) -> usize {
    (d as usize / 8).min(TK - 1)
}
fn t_data(i: usize) -> *const () {
    // null for 0: the same legitimate "state lives elsewhere" waker as above; small aligned
    // addresses otherwise, never dereferenced
    std::ptr::without_provenance::<()>(i * 8)
}
fn t_clone<const V: usize>(d: *const ()) -> std::task::RawWaker {
    T_LIVE[V][t_idx(d)].fetch_add(1, Ordering::SeqCst);
    std::task::RawWaker::new(d, t_vtable(V))
}
fn t_wake<const V: usize>(d: *const ()) {
    T_WAKES[V][t_idx(d)].fetch_add(1, Ordering::SeqCst);
    T_LIVE[V][t_idx(d)].fetch_sub(1, Ordering::SeqCst);
}
fn t_wake_ref<const V: usize>(d: *const ()) {
    T_WAKES[V][t_idx(d)].fetch_add(1, Ordering::SeqCst);
}
fn t_drop<const V: usize>(d: *const ()) {
    T_LIVE[V][t_idx(d)].fetch_sub(1, Ordering::SeqCst);
}
static T_VT0: std::task::RawWakerVTable = std::task::RawWakerVTable::new(t_clone::<0>, t_wake::<0>, t_wake_ref::<0>, t_drop::<0>);
static T_VT1: std::task::RawWakerVTable = std::task::RawWakerVTable::new(t_clone::<1>, t_wake::<1>, t_wake_ref::<1>, t_drop::<1>);
static T_VT2: std::task::RawWakerVTable = std::task::RawWakerVTable::new(t_clone::<2>, t_wake::<2>, t_wake_ref::<2>, t_drop::<2>);
fn t_vtable(v: usize) -> &'static std::task::RawWakerVTable {
    match v {
        0 => &T_VT0,
        1 => &T_VT1,
        _ => &T_VT2,
    }
}

struct Stash {
    out: Arc<Mutex<Vec<Waker>>>,
}
impl Future for Stash {
    type Output = u32;
    fn poll(self: Pin<&mut Self>, cx: &mut Context<'_>) -> Poll<u32> {
        let w = cx.waker().clone();
        self.out.lock().unwrap().push(w);
        Poll::Pending
    }
}
impl Stream for Stash {
    type Item = u32;
    fn poll_next(self: Pin<&mut Self>, cx: &mut Context<'_>) -> Poll<Option<u32>> {
        let w = cx.waker().clone();
        self.out.lock().unwrap().push(w);
        Poll::Pending
    }
}

fn tasks_sim(step: &Step, counts: &mut Vec<&'static str>) -> Result<String, Violation> {
    let ident = step.arg(0).rem_euclid(3);
    let ntask = 2 + (step.arg(1).rem_euclid(2)) as usize;
    let as_stream = step.arg(2) & 1 == 1;
    // (vtable, data) of task k
    let id = |k: usize| -> (usize, usize) {
        match ident {
            0 => (k, 0),
            1 => (0, k),
            _ => (k, (k + 1) % TK),
        }
    };
    for row in T_LIVE.iter() {
        for c in row {
            c.store(0, Ordering::SeqCst);
        }
    }
    for row in T_WAKES.iter() {
        for c in row {
            c.store(0, Ordering::SeqCst);
        }
    }
    let mut callers: Vec<Option<Waker>> = (0..ntask)
        .map(|k| {
            let (v, d) = id(k);
            T_LIVE[v][d].store(1, Ordering::SeqCst);
            Some(unsafe { Waker::from_raw(std::task::RawWaker::new(t_data(d), t_vtable(v))) })
        })
        .collect();
    let out: Arc<Mutex<Vec<Waker>>> = Arc::new(Mutex::new(Vec::new()));
    let stash = Stash { out: out.clone() };
    let mut fut: Option<Pin<Box<dyn Future<Output = u32> + Send>>> = None;
    let mut strm: Option<Pin<Box<dyn Stream<Item = u32> + Send>>> = None;
    track(|| {
        if as_stream {
            strm = Some(Box::pin(trait_obj!(stash as Stream)));
        } else {
            fut = Some(Box::pin(trait_obj!(stash as Future)));
        }
    });
    // live foreign-side handles with the task each belongs to
    let mut handles: Vec<(Waker, usize)> = Vec::new();
    let mut want_wakes = vec![0u64; ntask];
    let mut caller_held = vec![1i64; ntask];
    let mut trace = String::new();
    let mut two_bound = false;
    let verify = |when: &str, handles: &Vec<(Waker, usize)>, want_wakes: &Vec<u64>, caller_held: &Vec<i64>, trace: &str| -> VResult {
        for k in 0..ntask {
            let (v, d) = id(k);
            let seen = T_WAKES[v][d].load(Ordering::SeqCst);
            let live = T_LIVE[v][d].load(Ordering::SeqCst);
            let mine = handles.iter().filter(|h| h.1 == k).count() as i64;
            vcheck!(seen == want_wakes[k], "waker.wrong_task_woken", "wakes", "several tasks [{}] after {}: waker of task {} was woken {} time(s), the wake operations on handles obtained from it number {}", trace.trim(), when, k, seen, want_wakes[k]);
            vcheck!(live >= caller_held[k] + mine.min(1), "waker.released_too_often", "count", "several tasks [{}] after {}: waker of task {} has {} live clone(s); the caller holds {} and {} foreign handle(s) obtained from it are alive", trace.trim(), when, k, live, caller_held[k], mine);
            vcheck!(live <= caller_held[k] + mine, "waker.leaked_clone", "count", "several tasks [{}] after {}: waker of task {} has {} live clone(s), more than the caller's {} + {} live foreign handle(s) obtained from it", trace.trim(), when, k, live, caller_held[k], mine);
        }
        Ok(())
    };
    for i in 3..step.a.len().min(3 + 14) {
        let c = step.arg(i).rem_euclid(1 << 20);
        let kind = c % 7;
        let x = (c / 7) as usize;
        let when;
        match kind {
            0 | 1 => {
                let k = x % ntask;
                let Some(w) = callers[k].as_ref() else { continue };
                let mut cx = Context::from_waker(w);
                track(|| {
                    if let Some(f) = fut.as_mut() {
                        let _ = f.as_mut().poll(&mut cx);
                    }
                    if let Some(s) = strm.as_mut() {
                        let _ = s.as_mut().poll_next(&mut cx);
                    }
                });
                for h in out.lock().unwrap().drain(..) {
                    handles.push((h, k));
                }
                when = format!("poll with task {}", k);
                trace.push_str(&format!("poll{} ", k));
                let mut seen_tasks = [false; TK];
                for h in &handles {
                    seen_tasks[h.1] = true;
                }
                if seen_tasks.iter().filter(|b| **b).count() >= 2 {
                    two_bound = true;
                }
            }
            2 if !handles.is_empty() => {
                let (h, k) = handles.remove(x % handles.len());
                want_wakes[k] += 1;
                track(|| h.wake());
                when = format!("wake of a handle of task {}", k);
                trace.push_str(&format!("wake{} ", k));
            }
            3 if !handles.is_empty() => {
                let j = x % handles.len();
                let k = handles[j].1;
                want_wakes[k] += 1;
                track(|| handles[j].0.wake_by_ref());
                when = format!("wake_by_ref of a handle of task {}", k);
                trace.push_str(&format!("wakeref{} ", k));
            }
            4 if !handles.is_empty() && handles.len() < 12 => {
                let j = x % handles.len();
                let k = handles[j].1;
                let c = track(|| handles[j].0.clone());
                handles.push((c, k));
                when = format!("clone of a handle of task {}", k);
                trace.push_str(&format!("clone{} ", k));
            }
            5 if !handles.is_empty() => {
                let (h, k) = handles.remove(x % handles.len());
                track(|| drop(h));
                when = format!("release of a handle of task {}", k);
                trace.push_str(&format!("drop{} ", k));
            }
            6 if x % 3 == 0 => {
                // the executor gives up its own handle of a task (the task is cancelled);
                // retained foreign handles keep the waker alive
                let k = (x / 3) % ntask;
                if callers[k].take().is_none() {
                    continue;
                }
                caller_held[k] = 0;
                when = format!("caller released its waker of task {}", k);
                trace.push_str(&format!("cancel{} ", k));
            }
            _ => continue,
        }
        verify(&when, &handles, &want_wakes, &caller_held, &trace)?;
    }
    // wind down: object first or handles first
    if step.arg(2) & 2 == 2 {
        track(|| {
            fut = None;
            strm = None;
        });
        trace.push_str("objdrop ");
    }
    while let Some((h, _)) = handles.pop() {
        track(|| drop(h));
    }
    track(|| {
        fut = None;
        strm = None;
    });
    verify("everything foreign was released", &handles, &want_wakes, &caller_held, &trace)?;
    callers.clear();
    for k in 0..ntask {
        let (v, d) = id(k);
        let live = T_LIVE[v][d].load(Ordering::SeqCst);
        vcheck!(live == 0, "waker.leaked_clone", "quiescence", "several tasks [{}]: waker of task {} has {} live clone(s) after the caller released its own", trace.trim(), k, live);
    }
    if two_bound {
        counts.push("probe.handles_of_two_tasks_alive_together");
    }
    counts.push(match ident {
        0 => "fault.caller_wakers_same_data_other_vtable",
        1 => "fault.caller_wakers_same_vtable_other_data",
        _ => "fault.caller_wakers_differ_in_both",
    });
    Ok(format!("Tasks ident={} n={} [{}]", ident, ntask, trace.trim()))
}

#[derive(Clone, Copy, Debug)]
enum WOp {
    BorrowWake,
    BorrowClone(usize),
    Clone(usize, usize),
    Wake(usize),
    WakeRef(usize),
    Drop(usize),
}

/// State shared between the executor and the simulated plugin code inside the polled object.
/// The lock is never held while a waker operation runs: the caller's waker may react to a wake
/// by operating on these handles again.
struct Shared {
    pending: Vec<WOp>,
    handles: Vec<Option<Waker>>,
    wakes_done: u64,
    effective: u64,
    reentrant: u64,
    log: Vec<String>,
    ready: bool,
    /// free-running mode: this many threads clone the borrowed waker of the current poll at the
    /// same time (a `&Waker` is Sync); their clones go to the last handle slots
    concurrent_clones: usize,
    /// how often the caller's waker has been woken so far (whatever kind of caller it is)
    probe: Option<Box<dyn Fn() -> u64 + Send>>,
    /// wakes that had not reached the caller's waker by the time the wake call returned
    late_wakes: u32,
}

/// `f` performs one wake: it has to have reached the caller's waker when it returns (other
/// wakes may arrive in the meantime, so "at least one more").
fn timely(sh: &Mutex<Shared>, f: impl FnOnce()) {
    let before = sh.lock().unwrap().probe.as_ref().map(|p| p());
    f();
    let mut g = sh.lock().unwrap();
    if let (Some(b), Some(p)) = (before, g.probe.as_ref()) {
        if p() < b + 1 {
            g.late_wakes += 1;
        }
    }
}

fn note(sh: &Mutex<Shared>, wake: bool, line: String) {
    let mut g = sh.lock().unwrap();
    if wake {
        g.wakes_done += 1;
    }
    g.effective += 1;
    g.log.push(line);
}

fn run_wop(sh: &Mutex<Shared>, op: WOp, borrowed: Option<&Waker>) {
    match op {
        WOp::BorrowWake => {
            if let Some(w) = borrowed {
                note(sh, true, "BorrowWake".into());
                timely(sh, || w.wake_by_ref());
            }
        }
        WOp::BorrowClone(h) => {
            if let Some(w) = borrowed {
                if sh.lock().unwrap().handles[h].is_none() {
                    let c = w.clone();
                    let mut g = sh.lock().unwrap();
                    if g.handles[h].is_none() {
                        g.handles[h] = Some(c);
                        g.effective += 1;
                        g.log.push(format!("BorrowClone->{}", h));
                    }
                }
            }
        }
        WOp::Clone(a, b) => {
            if a == b {
                return;
            }
            let src = {
                let mut g = sh.lock().unwrap();
                if g.handles[a].is_some() && g.handles[b].is_none() { g.handles[a].take() } else { None }
            };
            if let Some(w) = src {
                let c = w.clone();
                let mut g = sh.lock().unwrap();
                g.handles[a] = Some(w);
                g.handles[b] = Some(c);
                g.effective += 1;
                g.log.push(format!("Clone {}->{}", a, b));
            }
        }
        WOp::Wake(h) => {
            let w = sh.lock().unwrap().handles[h].take();
            if let Some(w) = w {
                note(sh, true, format!("Wake {}", h));
                timely(sh, || w.wake());
            }
        }
        WOp::WakeRef(h) => {
            let w = sh.lock().unwrap().handles[h].take();
            if let Some(w) = w {
                note(sh, true, format!("WakeRef {}", h));
                timely(sh, || w.wake_by_ref());
                let mut g = sh.lock().unwrap();
                if g.handles[h].is_none() {
                    g.handles[h] = Some(w);
                } else {
                    drop(g);
                    drop(w);
                }
            }
        }
        WOp::Drop(h) => {
            let w = sh.lock().unwrap().handles[h].take();
            if let Some(w) = w {
                note(sh, false, format!("Drop {}", h));
                drop(w);
            }
        }
    }
}

/// The simulated plugin: one value that is a Future, a Stream and a Sink.
struct SimObj {
    sh: Arc<Mutex<Shared>>,
}

impl SimObj {
    fn inside(&self, cx: &mut Context<'_>) -> bool {
        let n = std::mem::take(&mut self.sh.lock().unwrap().concurrent_clones);
        if n > 0 {
            let w: &Waker = cx.waker();
            let sh = &self.sh;
            std::thread::scope(|sc| {
                for i in 0..n {
                    sc.spawn(move || {
                        let c = w.clone();
                        let mut g = sh.lock().unwrap();
                        let slot = NH - 1 - i;
                        if g.handles[slot].is_none() {
                            g.handles[slot] = Some(c);
                        } else {
                            drop(g);
                            drop(c);
                        }
                    });
                }
            });
        }
        let ops = std::mem::take(&mut self.sh.lock().unwrap().pending);
        for op in ops {
            run_wop(&self.sh, op, Some(cx.waker()));
        }
        let r = self.sh.lock().unwrap().ready;
        r
    }
}

impl Future for SimObj {
    type Output = u32;
    fn poll(self: Pin<&mut Self>, cx: &mut Context<'_>) -> Poll<u32> {
        if self.inside(cx) { Poll::Ready(7) } else { Poll::Pending }
    }
}
impl Stream for SimObj {
    type Item = u32;
    fn poll_next(self: Pin<&mut Self>, cx: &mut Context<'_>) -> Poll<Option<u32>> {
        if self.inside(cx) { Poll::Ready(Some(9)) } else { Poll::Pending }
    }
}
impl Sink<u32> for SimObj {
    type Error = u32;
    fn poll_ready(self: Pin<&mut Self>, cx: &mut Context<'_>) -> Poll<Result<(), u32>> {
        if self.inside(cx) { Poll::Ready(Ok(())) } else { Poll::Pending }
    }
    fn start_send(self: Pin<&mut Self>, _item: u32) -> Result<(), u32> {
        Ok(())
    }
    fn poll_flush(self: Pin<&mut Self>, cx: &mut Context<'_>) -> Poll<Result<(), u32>> {
        if self.inside(cx) { Poll::Ready(Err(3)) } else { Poll::Pending }
    }
    fn poll_close(self: Pin<&mut Self>, cx: &mut Context<'_>) -> Poll<Result<(), u32>> {
        if self.inside(cx) { Poll::Ready(Ok(())) } else { Poll::Pending }
    }
}

enum Obj {
    /// second field: the object as raw words (vtable pointer, container…), for the foreign caller
    Fut(Pin<Box<dyn Future<Output = u32> + Send>>, *const usize),
    Stream(Pin<Box<dyn Stream<Item = u32> + Send>>),
    Sink(Pin<Box<dyn Sink<u32, Error = u32> + Send>>),
}

fn make_obj(kind: i64, sh: &Arc<Mutex<Shared>>) -> Obj {
    let sim = SimObj { sh: sh.clone() };
    track(|| match kind.rem_euclid(3) {
        0 => {
            let b = Box::pin(trait_obj!(sim as Future));
            let words = &*b as *const _ as *const usize;
            Obj::Fut(b, words)
        }
        1 => Obj::Stream(Box::pin(trait_obj!(sim as Stream))),
        _ => Obj::Sink(Box::pin(trait_obj!(sim as Sink))),
    })
}

struct State {
    sh: Arc<Mutex<Shared>>,
    obj: Option<Obj>,
    w: Weak<CountWaker>,
    wref: *const CountWaker,
    caller: Option<Waker>,
    drops: Arc<AtomicU32>,
    /// caller waker with null data pointer and static state instead of the Arc-based one
    static_caller: bool,
    /// caller waker with one record per clone (statics again)
    node_caller: bool,
    /// the caller is a foreign module polling through the vtable with a hand-made C waker
    foreign_caller: bool,
    _keep: Option<Arc<CountWaker>>,
    in_poll: bool,
    poll_entry: i64,
    model_wakes: u64,
    /// owned wakers held by a *foreign plugin*: it got the by-reference waker cglue builds from
    /// the caller's waker, and uses it purely through the published layout — `clone` of the
    /// by-reference waker, then the owned waker's vtable (clone / wake / wake_by_ref / drop)
    fplugin: Vec<Option<FOwnedRaw>>,
    fplugin_wakes: u64,
}

/// {raw words, vtable pointer} as the plugin sees it; the vtable is cglue's, read by layout
#[repr(C)]
#[derive(Clone, Copy)]
struct FOwnedRaw {
    waker: FWords,
    vtable: *const FVtbl,
}

fn parse_wop(step: &Step) -> Option<WOp> {
    let h = |v: i64| v.rem_euclid(NH as i64) as usize;
    Some(match step.op.as_str() {
        "WBorrowWake" => WOp::BorrowWake,
        "WBorrowClone" => WOp::BorrowClone(h(step.arg(0))),
        "WClone" => WOp::Clone(h(step.arg(0)), h(step.arg(1))),
        "WWake" => WOp::Wake(h(step.arg(0))),
        "WWakeRef" => WOp::WakeRef(h(step.arg(0))),
        "WDrop" => WOp::Drop(h(step.arg(0))),
        _ => return None,
    })
}

fn do_poll(st: &mut State, counts: &mut Vec<&'static str>) -> Result<String, Violation> {
    st.in_poll = false;
    let (Some(obj), Some(caller)) = (st.obj.as_mut(), st.caller.as_ref()) else {
        st.sh.lock().unwrap().pending.clear();
        return Ok("Poll noop(no object or caller waker)".into());
    };
    let mut cx = Context::from_waker(caller);
    let entry = st.poll_entry;
    let ready = st.sh.lock().unwrap().ready;
    let foreign = st.foreign_caller;
    let desc = track(|| match obj {
        Obj::Fut(_, words) if foreign => unsafe {
            // what a C caller does: first word of the object is the vtable, its first entry is poll
            // (container, by-reference waker, out slot) -> bool; the container follows the vtable pointer
            type PollFn = unsafe extern "C" fn(*mut std::ffi::c_void, *const FRef, *mut u32) -> bool;
            let vtbl = *(*words as *const *const PollFn);
            let poll: PollFn = *vtbl;
            let raw = FWords { w: [caller.data(), F_TAG as *const ()] };
            let fref = FRef { raw: &raw, clone: fr_clone, wake_by_ref: fr_wake_by_ref };
            let mut out: u32 = 0;
            if poll((*words).add(1) as *mut std::ffi::c_void, &fref, &mut out) {
                format!("Future Ready({})", out)
            } else {
                "Future Pending".to_string()
            }
        },
        Obj::Fut(f, _) => match f.as_mut().poll(&mut cx) {
            Poll::Ready(v) => format!("Future Ready({})", v),
            Poll::Pending => "Future Pending".to_string(),
        },
        Obj::Stream(s) => match s.as_mut().poll_next(&mut cx) {
            Poll::Ready(v) => format!("Stream Ready({:?})", v),
            Poll::Pending => "Stream Pending".to_string(),
        },
        Obj::Sink(s) => {
            let r = match entry.rem_euclid(3) {
                0 => s.as_mut().poll_ready(&mut cx),
                1 => s.as_mut().poll_flush(&mut cx),
                _ => s.as_mut().poll_close(&mut cx),
            };
            match r {
                Poll::Ready(v) => format!("Sink[{}] Ready({:?})", entry.rem_euclid(3), v),
                Poll::Pending => format!("Sink[{}] Pending", entry.rem_euclid(3)),
            }
        }
    });
    // the result of the poll itself must cross the boundary intact
    let want_ready = ready;
    vcheck!(desc.contains("Ready") == want_ready, "waker.poll_result", "poll", "poll returned {:?} but the polled value answered ready={}", desc, want_ready);
    if want_ready {
        let ok = desc == "Future Ready(7)" || desc == "Stream Ready(Some(9))" || desc == "Sink[0] Ready(Ok(()))" || desc == "Sink[1] Ready(Err(3))" || desc == "Sink[2] Ready(Ok(()))";
        vcheck!(ok, "waker.poll_result", "poll", "poll returned {:?}", desc);
    }
    counts.push("op.Poll");
    if foreign {
        counts.push("fault.foreign_module_caller_polls_through_vtable");
    }
    Ok(format!("Poll {}", desc))
}

fn apply(st: &mut State, step: &Step, counts: &mut Vec<&'static str>) -> Result<String, Violation> {
    if let Some(op) = parse_wop(step) {
        if st.in_poll {
            st.sh.lock().unwrap().pending.push(op);
            return Ok(format!("queued {:?}", op));
        }
        let before = st.sh.lock().unwrap().effective;
        track(|| run_wop(&st.sh, op, None));
        if st.sh.lock().unwrap().effective == before {
            return Ok(format!("{} noop", step.op));
        }
        if st.obj.is_none() {
            counts.push("probe.waker_op_after_object_dropped");
        }
        if st.caller.is_none() {
            counts.push("probe.waker_op_after_caller_waker_dropped");
        }
        return Ok(format!("outside {:?}", op));
    }
    match step.op.as_str() {
        "Tasks" => {
            if st.in_poll {
                do_poll(st, counts)?;
            }
            tasks_sim(step, counts)
        }
        "PBorrowClone" | "PClone" | "PWake" | "PWakeRef" | "PDrop" => {
            // the foreign plugin's side of the waker protocol, by layout only (not under Miri: the
            // mirror structures are not the types the function pointers are declared with)
            if cfg!(miri) || st.static_caller || st.node_caller {
                return Ok(format!("{} noop", step.op));
            }
            if st.in_poll {
                do_poll(st, counts)?;
            }
            let h = step.arg(0).rem_euclid(NH as i64) as usize;
            let h2 = step.arg(1).rem_euclid(NH as i64) as usize;
            unsafe {
                match step.op.as_str() {
                    "PBorrowClone" => {
                        let Some(caller) = st.caller.as_ref() else { return Ok("PBorrowClone noop".into()) };
                        if st.fplugin[h].is_some() {
                            return Ok("PBorrowClone noop".into());
                        }
                        // what the generated caller-side code hands to the plugin's poll entry
                        let cref = cglue::task::CRefWaker::from(caller);
                        let view: &FRefRaw = &*(&cref as *const cglue::task::CRefWaker as *const FRefRaw);
                        let owned = track(|| (view.clone)(view.raw as *const ()));
                        st.fplugin[h] = Some(owned);
                    }
                    "PClone" => {
                        let (Some(src), None) = (st.fplugin[h], st.fplugin[h2]) else { return Ok("PClone noop".into()) };
                        let owned = track(|| ((*src.vtable).clone_raw())(src.waker));
                        st.fplugin[h2] = Some(owned);
                    }
                    "PWake" => {
                        let Some(src) = st.fplugin[h].take() else { return Ok("PWake noop".into()) };
                        st.fplugin_wakes += 1;
                        track(|| ((*src.vtable).wake)(src.waker));
                    }
                    "PWakeRef" => {
                        let Some(src) = st.fplugin[h] else { return Ok("PWakeRef noop".into()) };
                        st.fplugin_wakes += 1;
                        track(|| ((*src.vtable).wake_by_ref)(src.waker));
                    }
                    _ => {
                        let Some(src) = st.fplugin[h].take() else { return Ok("PDrop noop".into()) };
                        track(|| ((*src.vtable).drop)(src.waker));
                    }
                }
            }
            counts.push("fault.foreign_plugin_uses_waker_by_layout");
            Ok(format!("{} {}", step.op, h))
        }
        "OnWake" => {
            // the caller's waker will, when next woken, operate on a retained foreign handle
            let h = step.arg(1).rem_euclid(NH as i64) as usize;
            let op = match step.arg(0).rem_euclid(3) {
                0 => WOp::Drop(h),
                1 => WOp::Wake(h),
                _ => WOp::Clone(h, (h + 1) % NH),
            };
            if st.static_caller || st.node_caller || st.drops.load(Ordering::SeqCst) > 0 {
                return Ok("OnWake noop".into());
            }
            unsafe { (*st.wref).reactions.lock().unwrap().push(op) };
            counts.push("fault.reentrant_reaction_registered");
            Ok(format!("OnWake {:?}", op))
        }
        "PollBegin" => {
            if st.in_poll {
                return Ok("PollBegin noop".into());
            }
            st.in_poll = true;
            st.poll_entry = step.arg(0);
            st.sh.lock().unwrap().ready = step.arg(1) & 1 == 1;
            Ok("PollBegin".into())
        }
        "PollEnd" => {
            if !st.in_poll {
                return Ok("PollEnd noop".into());
            }
            do_poll(st, counts)
        }
        "ObjDrop" => {
            if st.in_poll {
                do_poll(st, counts)?;
            }
            match st.obj.take() {
                Some(o) => {
                    track(|| drop(o));
                    counts.push("fault.early_drop_object");
                    Ok("ObjDrop".into())
                }
                None => Ok("ObjDrop noop".into()),
            }
        }
        "CallerDrop" => {
            if st.in_poll {
                do_poll(st, counts)?;
            }
            match st.caller.take() {
                Some(w) => {
                    drop(w);
                    counts.push("fault.early_drop_caller_waker");
                    Ok("CallerDrop".into())
                }
                None => Ok("CallerDrop noop".into()),
            }
        }
        _ => Ok(format!("unknown-op {}", step.op)),
    }
}

fn check(st: &mut State, when: &str) -> VResult {
    let (wakes_done, live, lines) = {
        let mut sh = st.sh.lock().unwrap();
        (sh.wakes_done + st.fplugin_wakes, sh.handles.iter().filter(|h| h.is_some()).count() as i64 + st.fplugin.iter().filter(|h| h.is_some()).count() as i64, std::mem::take(&mut sh.log))
    };
    let _ = lines;
    st.model_wakes = wakes_done;
    {
        let late = st.sh.lock().unwrap().late_wakes;
        vcheck!(late == 0, "waker.wake_deferred", "wakes", "{}: {} wake(s) had not reached the caller's waker by the time the wake call returned", when, late);
    }
    let base = if st.caller.is_some() { 1 } else { 0 };
    if st.node_caller {
        let strong = n_live();
        let seen = N_WAKES.load(Ordering::SeqCst);
        vcheck!(N_STALE.load(Ordering::SeqCst) == 0, "waker.use_after_release", "record", "{}: the caller's (record-per-clone) waker was cloned, woken or released through a record that had already been released ({} time(s)): every clone has its own data pointer, and a wake must go through a live one", when, N_STALE.load(Ordering::SeqCst));
        vcheck!(seen == wakes_done, "waker.wake_count", "wakes", "{}: {} wake operation(s) were performed on foreign-side wakers but the caller's (record-per-clone) waker was woken {} time(s)", when, wakes_done, seen);
        vcheck!(strong >= base, "waker.released_too_often", "count", "{}: the caller's waker has {} live record(s), fewer than the {} the caller itself holds", when, strong, base);
        vcheck!(live == 0 || strong >= base + 1, "waker.released_too_often", "count", "{}: {} foreign-side handle(s) are alive but none holds a clone of the caller's waker", when, live);
        vcheck!(strong <= base + live, "waker.leaked_clone", "count", "{}: {} live record(s) of the caller's waker exceed caller's own {} + {} live foreign handle(s)", when, strong, base, live);
        return Ok(());
    }
    if st.static_caller {
        let strong = S_LIVE.load(Ordering::SeqCst);
        let seen = S_WAKES.load(Ordering::SeqCst);
        vcheck!(seen == wakes_done, "waker.wake_count", "wakes", "{}: {} wake operation(s) were performed on foreign-side wakers but the caller's (static-state, null-data) waker was woken {} time(s)", when, wakes_done, seen);
        vcheck!(strong >= base, "waker.released_too_often", "count", "{}: the caller's waker has {} live clone(s), fewer than the {} the caller itself holds", when, strong, base);
        vcheck!(live == 0 || strong >= base + 1, "waker.released_too_often", "count", "{}: {} foreign-side handle(s) are alive but none holds a clone of the caller's waker", when, live);
        vcheck!(strong <= base + live, "waker.leaked_clone", "count", "{}: {} live clone(s) of the caller's waker exceed caller's own {} + {} live foreign handle(s)", when, strong, base, live);
        return Ok(());
    }
    let dropped = st.drops.load(Ordering::SeqCst);
    let strong = st.w.strong_count() as i64;
    if dropped > 0 {
        vcheck!(dropped == 1, "waker.original_dropped_twice", "drop", "{}: the caller's waker was destroyed {} times", when, dropped);
        vcheck!(base == 0 && live == 0, "waker.released_too_often", "count", "{}: the caller's waker has been destroyed while {} foreign handle(s) and {} caller handle(s) still exist", when, live, base);
        return Ok(());
    }
    // SAFETY: not dropped yet (drop log is empty), so the allocation is alive
    let seen = unsafe { (*st.wref).wakes.load(Ordering::SeqCst) };
    vcheck!(seen == wakes_done, "waker.wake_count", "wakes", "{}: {} wake operation(s) were performed on foreign-side wakers but the caller's waker was woken {} time(s)", when, wakes_done, seen);
    vcheck!(strong >= base, "waker.released_too_often", "count", "{}: caller waker strong count {} is below the {} handle(s) the caller itself holds", when, strong, base);
    vcheck!(live == 0 || strong >= base + 1, "waker.released_too_often", "count", "{}: {} foreign-side waker handle(s) are alive but none of them holds the caller's waker any more (strong count {} = caller's own {})", when, live, strong, base);
    vcheck!(strong <= base + live, "waker.leaked_clone", "count", "{}: caller waker strong count {} exceeds caller's own {} + {} live foreign handle(s)", when, strong, base, live);
    Ok(())
}

fn state_hash(st: &State) -> u64 {
    let mut h = Fnv::new();
    let sh = st.sh.lock().unwrap();
    h.u64(sh.handles.iter().filter(|x| x.is_some()).count() as u64);
    h.u64(st.obj.is_some() as u64);
    h.u64(st.caller.is_some() as u64);
    h.u64(st.in_poll as u64);
    h.u64(st.w.strong_count() as u64);
    h.0
}

const OPS: [&str; 17] = ["PollBegin", "PollEnd", "WBorrowWake", "WBorrowClone", "WClone", "WWake", "WWakeRef", "WDrop", "ObjDrop", "CallerDrop", "OnWake", "PBorrowClone", "PClone", "PWake", "PWakeRef", "PDrop", "Tasks"];

fn new_state(kind: i64, caller_kind: i64) -> State {
    let static_caller = caller_kind == 1;
    // the foreign caller exists for Future objects; it keeps its books in the same records
    // (not under Miri: it rejects calling a function that returns the hand-made mirror structure
    // through a pointer typed with cglue's private structure of the same layout — its rule for Rust
    // callers, not a statement about the C ABI)
    let foreign_caller = caller_kind == 3 && kind.rem_euclid(3) == 0 && !cfg!(miri);
    let node_caller = caller_kind == 2 || caller_kind == 3;
    let drops = Arc::new(AtomicU32::new(0));
    let cw = Arc::new(CountWaker { wakes: AtomicU64::new(0), drops: drops.clone(), reactions: Mutex::new(Vec::new()), pool: Mutex::new(None) });
    let w = Arc::downgrade(&cw);
    let wref = Arc::as_ptr(&cw);
    let mut keep = None;
    let caller = if node_caller {
        keep = Some(cw);
        node_waker()
    } else if static_caller {
        keep = Some(cw);
        static_waker()
    } else {
        Waker::from(cw)
    };
    let sh = Arc::new(Mutex::new(Shared { pending: Vec::new(), handles: (0..NH).map(|_| None).collect(), wakes_done: 0, effective: 0, reentrant: 0, log: Vec::new(), ready: false, concurrent_clones: 0, probe: None, late_wakes: 0 }));
    {
        let wp = SendPtr(wref);
        let probe: Box<dyn Fn() -> u64 + Send> = if node_caller {
            Box::new(|| N_WAKES.load(Ordering::SeqCst))
        } else if static_caller {
            Box::new(|| S_WAKES.load(Ordering::SeqCst))
        } else {
            // (the Arc-backed caller waker: alive as long as the run keeps `_keep` or a clone; the
            // probe is only consulted around wakes, which need a live clone)
            Box::new(move || unsafe { (*wp.get()).wakes.load(Ordering::SeqCst) })
        };
        sh.lock().unwrap().probe = Some(probe);
    }
    *unsafe { &*wref }.pool.lock().unwrap() = Some(sh.clone());
    let obj = make_obj(kind, &sh);
    State { sh, obj: Some(obj), w, wref, caller: Some(caller), drops, static_caller, node_caller, foreign_caller, _keep: keep, in_poll: false, poll_entry: 0, model_wakes: 0, fplugin: (0..NH).map(|_| None).collect(), fplugin_wakes: 0 }
}

impl Engine for WakerEngine {
    fn name(&self) -> &'static str {
        "waker"
    }

    fn gen(&self, rng: &mut Rng, thorough: bool) -> Plan {
        let mut p = Plan::new("waker");
        let threads = rng.range(1, 3);
        p.set("threads", threads);
        p.set("obj", rng.range(0, 2));
        p.set("caller_kind", [0, 0, 1, 2, 3, 3][rng.below(6) as usize]);
        let max_steps = if rng.chance(1, 2) { rng.range(3, 10) } else { rng.range(10, if thorough { 50 } else { 30 }) };
        let mut w: Vec<u32> = vec![8, 8, 5, 12, 10, 8, 6, 10, 1, 1, 3, 0, 0, 0, 0, 0, 2];
        if rng.chance(1, 3) {
            // a foreign plugin takes part
            for (i, x) in [6u32, 4, 3, 4, 3].iter().enumerate() {
                w[11 + i] = *x;
            }
        }
        if rng.chance(1, 2) {
            w[10] = 0;
        }
        for i in 2..w.len() {
            if rng.chance(1, 6) {
                w[i] = 0;
            }
        }
        let nh = rng.range(1, NH as i64);
        p.push(0, "PollBegin", &[rng.range(0, 2), 0]);
        for _ in 0..max_steps {
            let t = rng.below(threads as u64) as u8;
            let op = OPS[rng.weighted(&w)];
            let h0 = rng.below(nh as u64) as i64;
            let h1 = rng.below(nh as u64) as i64;
            match op {
                "PollBegin" => p.push(t, op, &[rng.range(0, 2), rng.chance(1, 4) as i64]),
                "WClone" | "PClone" => p.push(t, op, &[h0, h1]),
                "OnWake" => p.push(t, op, &[rng.range(0, 2), h0]),
                "Tasks" => {
                    let mut a = vec![rng.range(0, 2), rng.range(0, 1), rng.range(0, 3)];
                    for _ in 0..rng.range(3, 12) {
                        // polls are frequent early on so that handles of different tasks coexist
                        let kind = *rng.pick(&[0, 0, 1, 2, 3, 4, 4, 5, 5, 6]);
                        a.push(kind + 7 * rng.range(0, 50));
                    }
                    p.push(t, op, &a);
                }
                "WBorrowClone" | "WWake" | "WWakeRef" | "WDrop" | "PBorrowClone" | "PWake" | "PWakeRef" | "PDrop" => p.push(t, op, &[h0]),
                _ => p.push(t, op, &[]),
            }
        }
        p
    }

    fn exec(&self, plan: &Plan, ctx: &mut RunCtx) -> VResult {
        if ctx.free {
            return exec_free(plan, ctx);
        }
        let mut st = new_state(plan.cfg("obj", 0), plan.cfg("caller_kind", plan.cfg("static_caller", 0)));
        let mut result: VResult = Ok(());
        for (i, step) in plan.steps.iter().enumerate() {
            ctx.cur_step = i as i64;
            simcore::alloc::set_step(i as i64);
            let mut counts: Vec<&'static str> = Vec::new();
            let stp = SendMut(&mut st as *mut State);
            let r = ctx.baton.on(step.t, || {
                let stp = stp;
                apply(unsafe { &mut *stp.0 }, step, &mut counts)
            });
            if step.t != 0 {
                ctx.count("fault.cross_thread_op");
            }
            for c in counts {
                ctx.count(c);
            }
            let line = match r {
                Ok(l) => l,
                Err(mut v) => {
                    v.step = i as i64;
                    result = Err(v);
                    break;
                }
            };
            if !line.contains("noop") && !line.starts_with("queued") && !line.starts_with("PollBegin") {
                if !line.starts_with("Poll") {
                    ctx.count(&format!("op.{}", step.op));
                }
                ctx.effective(true);
            }
            let inner: Vec<String> = std::mem::take(&mut st.sh.lock().unwrap().log);
            ctx.log(&format!("s{} t{} {} [{}]", i, step.t, line, inner.join(",")));
            ctx.count_n("op.inside_or_outside_waker_ops", inner.len() as u64);
            if let Err(mut v) = check(&mut st, &format!("after step {} ({})", i, step.text())).and_then(|_| simcore::check_alloc("waker")) {
                v.step = i as i64;
                result = Err(v);
                break;
            }
            ctx.reach(state_hash(&st), plan.steps.get(i + 1).map(|s| s.op.as_str()));
        }
        if result.is_err() {
            std::mem::forget(st);
            return result;
        }
        ctx.cur_step = -1;
        simcore::alloc::set_step(-1);
        // quiescence: finish a pending poll, then release object, foreign handles and caller waker
        let mut counts = Vec::new();
        if st.in_poll {
            if let Err(v) = do_poll(&mut st, &mut counts) {
                std::mem::forget(st);
                return Err(v);
            }
        }
        if let Err(v) = check(&mut st, "after the final poll") {
            std::mem::forget(st);
            return Err(v);
        }
        let order = plan.cfg("release_order", 0).rem_euclid(3);
        let r = (|| -> VResult {
            for phase in 0..3 {
                match (phase + order) % 3 {
                    0 => {
                        if let Some(o) = st.obj.take() {
                            track(|| drop(o));
                        }
                    }
                    1 => {
                        let hs: Vec<Waker> = st.sh.lock().unwrap().handles.iter_mut().filter_map(|h| h.take()).collect();
                        track(|| drop(hs));
                        for h in st.fplugin.iter_mut() {
                            if let Some(src) = h.take() {
                                track(|| unsafe { ((*src.vtable).drop)(src.waker) });
                            }
                        }
                    }
                    _ => {
                        st.caller.take();
                    }
                }
                check(&mut st, "while releasing at quiescence")?;
            }
            if st.node_caller {
                vcheck!(n_live() == 0 && N_STALE.load(Ordering::SeqCst) == 0, "waker.leaked_clone", "quiescence", "at quiescence {} record(s) of the caller's (record-per-clone) waker are still alive, {} operation(s) went through released records", n_live(), N_STALE.load(Ordering::SeqCst));
                simcore::check_alloc("waker")?;
                return simcore::check_no_leak("waker");
            }
            if st.static_caller {
                vcheck!(S_LIVE.load(Ordering::SeqCst) == 0, "waker.leaked_clone", "quiescence", "at quiescence {} clone(s) of the caller's (static-state) waker are still alive", S_LIVE.load(Ordering::SeqCst));
                simcore::check_alloc("waker")?;
                return simcore::check_no_leak("waker");
            }
            let dropped = st.drops.load(Ordering::SeqCst);
            vcheck!((st.w.strong_count() as i64) >= 0, "waker.released_too_often", "count", "at quiescence the caller's waker has been released more often than it was cloned (strong count underflowed to {})", st.w.strong_count() as i64);
            vcheck!(st.w.strong_count() == 0 && dropped == 1, "waker.leaked_clone", "quiescence", "at quiescence the caller's waker still has strong count {} (destroyed {} time(s)): a clone taken on its behalf was never released", st.w.strong_count(), dropped);
            simcore::check_alloc("waker")?;
            simcore::check_no_leak("waker")
        })();
        if r.is_err() {
            std::mem::forget(st);
        }
        r
    }
}

struct SendMut<T>(*mut T);
unsafe impl<T> Send for SendMut<T> {}

/// Free-running mode (Miri mode B): one poll on the main thread creates the handles, every thread
/// then gets its own clone of every handle (sharing the foreign-side records) and runs its waker
/// ops unsynchronised; end-of-run oracles.
fn exec_free(plan: &Plan, ctx: &mut RunCtx) -> VResult {
    let threads = plan.cfg("threads", 2).clamp(1, 4) as usize;
    let mut st = new_state(plan.cfg("obj", 0), 0);
    // phase 1: one poll with all thread-0 ops inside
    st.in_poll = true;
    for step in plan.steps.iter().filter(|s| s.t == 0) {
        if let Some(op) = parse_wop(step) {
            st.sh.lock().unwrap().pending.push(op);
        }
    }
    // inside that poll two threads also clone the borrowed waker at the same time
    st.sh.lock().unwrap().concurrent_clones = 2;
    let mut counts = Vec::new();
    do_poll(&mut st, &mut counts)?;
    let mut total_wakes = st.sh.lock().unwrap().wakes_done;
    let mut base: Vec<Option<Waker>> = std::mem::replace(&mut st.sh.lock().unwrap().handles, (0..NH).map(|_| None).collect());
    // phase 2: every thread holds one handle per record — the original goes to one thread, clones to
    // the others, the executor keeps none — so that the last releases of a record race
    let mut per_thread: Vec<Vec<Option<Waker>>> = (0..threads).map(|_| Vec::new()).collect();
    for (i, h) in base.iter_mut().enumerate() {
        for (t, pt) in per_thread.iter_mut().enumerate() {
            if t == i % threads {
                continue;
            }
            pt.push(h.as_ref().map(|w| w.clone()));
        }
        let orig = h.take();
        let pt = &mut per_thread[i % threads];
        let at = i.min(pt.len());
        pt.insert(at, orig);
    }
    let done: Vec<u64> = std::thread::scope(|sc| {
        let mut hs = Vec::new();
        for (t, mine) in per_thread.into_iter().enumerate() {
            let steps = &plan.steps;
            hs.push(sc.spawn(move || {
                let sh = Mutex::new(Shared { pending: Vec::new(), handles: mine, wakes_done: 0, effective: 0, reentrant: 0, log: Vec::new(), ready: false, concurrent_clones: 0, probe: None, late_wakes: 0 });
                for step in steps.iter().filter(|s| (s.t as usize) % threads == t && s.t != 0 || threads == 1) {
                    if let Some(op) = parse_wop(step) {
                        run_wop(&sh, op, None);
                    }
                }
                let hs: Vec<Option<Waker>> = std::mem::take(&mut sh.lock().unwrap().handles);
                drop(hs);
                let n = sh.lock().unwrap().wakes_done;
                n
            }));
        }
        hs.into_iter().map(|h| h.join().expect("free-mode thread panicked")).collect()
    });
    total_wakes += done.iter().sum::<u64>();
    drop(base);
    ctx.effective(true);
    ctx.effective(true);
    ctx.log(&format!("free threads={} wakes={}", threads, total_wakes));
    let seen = unsafe { (*st.wref).wakes.load(Ordering::SeqCst) };
    vcheck!(seen == total_wakes, "waker.wake_count", "wakes", "free mode: {} wake ops performed, caller's waker woken {} times", total_wakes, seen);
    st.obj.take();
    vcheck!(st.w.strong_count() == 1, "waker.leaked_clone", "count", "free mode: after all foreign handles were released the caller's waker has strong count {} (caller holds 1)", st.w.strong_count());
    st.caller.take();
    vcheck!(st.w.strong_count() == 0 && st.drops.load(Ordering::SeqCst) == 1, "waker.leaked_clone", "quiescence", "free mode: strong count {} destroyed {} times", st.w.strong_count(), st.drops.load(Ordering::SeqCst));
    Ok(())
}
