#!/bin/sh
# usage: tools_seeded.sh <delivery dir containing patch.diff> <prop[,prop...]>
# applies the seeded change to /repo, runs the quick checks, always reverts.
d=$1; props=$2
git -C /repo apply --check $d/patch.diff || { echo "PATCH DOES NOT APPLY"; exit 3; }
trap 'git -C /repo checkout -- . ; git -C /repo clean -fdq -- cglue cglue-gen cglue-macro cglue-bindgen' EXIT INT TERM
git -C /repo apply $d/patch.diff
git -C /repo diff --stat | tail -1
for p in $(echo $props | tr , ' '); do
  timeout ${SEEDED_TIMEOUT:-900} /verif/check $p --tier quick > /tmp/seeded-out.txt 2>&1; rc=$?
  echo "== $p exit=$rc"; grep -E "^VIOLATION|^HARNESS|^#   class|^#   [a-z]|KNOWN" /tmp/seeded-out.txt | grep -v "KNOWN-FINDING: property=C07" | cut -c1-260 | head -6
done
