"""Which engines decide which property, and how many runs per tier."""
from driver_main import Job, cargo_build

COMMON_ASSUMPTIONS = [
    "seeded sampling, not enumeration: a clean batch is evidence, not proof",
    "baton scheduling serialises operations; instruction-level interleavings are only explored in the thorough tier under Miri",
    "Miri runs with -Zmiri-disable-stacked-borrows (the unchanged tree violates the aliasing models at every type erasure)",
]


def J(engine, quick, thorough, package="primsim", **kw):
    return Job(package, engine, quick, thorough, **kw)


ARC = J("arc", 20000, 1500000)

VEC = J("vec", 20000, 1500000)

CSTR = J("cstr", 20000, 1500000)

WAKER = J("waker", 20000, 1500000)

FEED = J("feed", 20000, 1500000)

CBOX = J("cbox", 20000, 1500000)

CP = {"SIM_CPARTY": "1"}
C16_JOBS = []
for _e in ("arc", "vec", "feed", "cbox"):
    C16_JOBS.append(J(_e, 6000, 300000, release_in=(), env=CP, label=_e + "-cparty-debug"))
    C16_JOBS.append(J(_e, 6000, 300000, release_in=("quick", "thorough"), env=CP, label=_e + "-cparty-release"))

ALL_JOBS = [ARC, VEC, CSTR, WAKER, FEED, CBOX] + C16_JOBS

PROPS = {
    "C10": {
        "jobs": [ARC],
        "real": ["cglue::arc (CArc, CArcSome, c_clone, c_drop, Opaquable)", "std::sync::Arc"],
        "stub": ["payload type with logged destructor", "foreign module's clone_fn/drop_fn in foreign_module runs", "C party transcribed from bindings.h"],
        "assumptions": COMMON_ASSUMPTIONS + ["Weak::strong_count is a faithful observer of the allocation's count"],
    },
    "C11": {
        "jobs": [VEC],
        "real": ["cglue::vec (CVec, TempVec, cglue_reserve_vec, cglue_drop_vec)", "std Vec"],
        "stub": ["element types with logged destructors", "foreign module's reserve_fn/drop_fn + arena in foreign_policy runs", "C party transcribed from bindings.h"],
        "assumptions": COMMON_ASSUMPTIONS + ["std::vec::Vec is the reference model"],
    },
    "C14": {
        "jobs": [CSTR],
        "real": ["cglue::repr_cstring (ReprCString, ReprCStr, string_size)"],
        "stub": ["global allocator (simalloc: red zones, non-zero fill, layout matching, leak accounting)"],
        "assumptions": COMMON_ASSUMPTIONS + ["inputs are valid UTF-8 as the property states; only the system allocator's behaviour is simulated, not allocation failure"],
    },
    "C19": {
        "jobs": [WAKER],
        "real": ["cglue::task (CRefWaker, CRawWaker, OpaqueRawWakerVtbl)", "generated Future/Stream/Sink glue (trait_obj!)", "tarc::BaseArc", "std::task::Wake"],
        "stub": ["polled value (the simulated plugin executes the plan's waker ops inside poll)", "counting Arc-based caller waker"],
        "assumptions": COMMON_ASSUMPTIONS + ["bounds do not prescribe how many clones of the caller's waker the implementation takes per handle: between 1 (while any handle lives) and one per live handle"],
    },
    "C15": {
        "jobs": [FEED],
        "real": ["cglue::callback (OpaqueCallback, Callback, FeedCallback, FromExtend, Callbackable, Extend impl)", "cglue::iter (CIterator, AsCIterator)"],
        "stub": ["sources and sinks are simulator streams (ids, logged destructors, non-fused gaps, seeded stop position)", "C party transcribed from bindings.h"],
        "assumptions": COMMON_ASSUMPTIONS,
    },
    "C16": {
        "jobs": C16_JOBS,
        "real": ["cglue::boxed, arc, vec, slice, callback, iter, option, result (layouts and the extern \"C\" functions stored in them)"],
        "stub": ["the C party: #[repr(C)] view structs and operations transcribed from examples/pregen-headers/bindings.h and cglue-bindgen/src/types.rs", "foreign-manufactured values with the simulator's own functions"],
        "assumptions": COMMON_ASSUMPTIONS + ["the transcription of the published header into view structs is faithful (it is short and reviewed against bindings.h)", "both debug and release builds of the harness are run"],
    },
}


def job_for(package, engine, label=None, extra_args=None):
    for j in ALL_JOBS:
        if j.package == package and j.engine == engine and (label is None or j.label == label):
            return j
    return Job(package, engine, 0, 0, extra_args=extra_args or [])


def build_all():
    for pkg in sorted(set(j.package for j in ALL_JOBS)):
        cargo_build(pkg, False)
        cargo_build(pkg, True)


def replay_special(prop, doc, path):
    raise NotImplementedError(doc.get("kind"))
