"""Which engines decide which property, and how many runs per tier."""
from driver_main import Job, PluginJob, cargo_build

COMMON_ASSUMPTIONS = [
    "seeded sampling, not enumeration: a clean batch is evidence, not proof",
    "baton scheduling serialises operations; instruction-level interleavings are only explored in the thorough tier under Miri",
    "Miri runs with -Zmiri-disable-stacked-borrows (the unchanged tree violates the aliasing models at every type erasure)",
    "under Miri some steps of a plan are no-ops and still count as part of an explored plan: consuming calls and clones of objects, the foreign-module caller and plugin of the waker engine, entries returning Self, allocation tracking; the native runs of the same plans execute them",
]


OBJ_REAL = ["cglue-gen generated glue (vtables, C wrappers, trait impls on opaque objects, group casts) compiled from /repo", "cglue::trait_group containers", "cglue::boxed / arc as object containers"]
OBJ_STUB = ["corpus implementors (stateful, logging, logged destructors)", "un-erased twin driven by direct trait calls as reference model", "simulated allocator"]
OBJ_ASSUME = COMMON_ASSUMPTIONS + ["the corpus (7 single-trait families, 4 groups with 1-4 optional traits, 30 implementor types, Box/&mut/&/CArcSome containers, no / reference-counted / plain contexts) stands for 'all programs in the grammar'; shapes the generator rejects (Option<Self::Assoc> returns) are outside it"]


def J(engine, quick, thorough, package="primsim", **kw):
    return Job(package, engine, quick, thorough, **kw)


ARC = J("arc", 20000, 1500000)

VEC = J("vec", 20000, 1500000)

CSTR = J("cstr", 20000, 1500000)

WAKER = J("waker", 20000, 1500000)

FEED = J("feed", 20000, 1500000)

CBOX = J("cbox", 20000, 1500000)

INTRES = J("intres", 20000, 1000000)

CP = {"SIM_CPARTY": "1"}
C16_JOBS = []
for _e in ("arc", "vec", "feed", "cbox"):
    C16_JOBS.append(J(_e, 6000, 300000, release_in=(), env=CP, label=_e + "-cparty-debug"))
    C16_JOBS.append(J(_e, 6000, 300000, release_in=("quick", "thorough"), env=CP, label=_e + "-cparty-release"))

def OBJ(focus, quick, thorough):
    return Job("objsim", "obj", quick, thorough, env={"SIM_FOCUS": focus}, label="obj-" + focus)


OBJ_CALLS = OBJ("calls", 20000, 1000000)
OBJ_LIFE = OBJ("life", 20000, 1000000)
OBJ_CTX = OBJ("ctx", 20000, 1000000)
OBJ_CASTS = OBJ("casts", 20000, 1000000)
OBJ_INTRES = OBJ("intres", 20000, 1000000)
OBJ_MIXED = OBJ("mixed", 10000, 500000)

ALL_JOBS = [ARC, VEC, CSTR, WAKER, FEED, CBOX, INTRES] + C16_JOBS + [OBJ_CALLS, OBJ_LIFE, OBJ_CTX, OBJ_CASTS, OBJ_INTRES, OBJ_MIXED]

# a run that crashed, hung or panicked decided nothing: whichever property was running it reports it
DIED = lambda cls: cls.startswith("crash.") or cls.endswith(".panic")

PROPS = {
    "C10": {
        "jobs": [ARC],
        "real": ["cglue::arc (CArc, CArcSome, c_clone, c_drop, Opaquable)", "std::sync::Arc"],
        "stub": ["payload type with logged destructor", "foreign module's clone_fn/drop_fn in foreign_module runs", "C party transcribed from bindings.h"],
        "assumptions": COMMON_ASSUMPTIONS + ["Weak::strong_count is a faithful observer of the allocation's count"],
    },
    "C11": {
        "jobs": [VEC],
        "real": ["cglue::vec (CVec, TempVec, cglue_reserve_vec, cglue_drop_vec)", "std Vec"],
        "stub": ["element types with logged destructors", "foreign module's reserve_fn/drop_fn + arena in foreign_policy runs", "C party transcribed from bindings.h"],
        "assumptions": COMMON_ASSUMPTIONS + ["std::vec::Vec is the reference model"],
    },
    "C14": {
        "jobs": [CSTR],
        "real": ["cglue::repr_cstring (ReprCString, ReprCStr, string_size)"],
        "stub": ["global allocator (simalloc: red zones, non-zero fill, layout matching, leak accounting)"],
        "assumptions": COMMON_ASSUMPTIONS + ["inputs are valid UTF-8 as the property states; only the system allocator's behaviour is simulated, not allocation failure"],
    },
    "C19": {
        "jobs": [WAKER],
        "real": ["cglue::task (CRefWaker, CRawWaker, OpaqueRawWakerVtbl)", "generated Future/Stream/Sink glue (trait_obj!)", "tarc::BaseArc", "std::task::Wake"],
        "stub": ["polled value (the simulated plugin executes the plan's waker ops inside poll)", "counting Arc-based caller waker"],
        "assumptions": COMMON_ASSUMPTIONS + ["bounds do not prescribe how many clones of the caller's waker the implementation takes per handle: between 1 (while any handle lives) and one per live handle"],
    },
    "C15": {
        "jobs": [FEED],
        "real": ["cglue::callback (OpaqueCallback, Callback, FeedCallback, FromExtend, Callbackable, Extend impl)", "cglue::iter (CIterator, AsCIterator)"],
        "stub": ["sources and sinks are simulator streams (ids, logged destructors, non-fused gaps, seeded stop position)", "C party transcribed from bindings.h"],
        "assumptions": COMMON_ASSUMPTIONS,
    },
    "C16": {
        "jobs": C16_JOBS,
        "real": ["cglue::boxed, arc, vec, slice, callback, iter, option, result (layouts and the extern \"C\" functions stored in them)"],
        "stub": ["the C party: #[repr(C)] view structs and operations transcribed from examples/pregen-headers/bindings.h and cglue-bindgen/src/types.rs", "foreign-manufactured values with the simulator's own functions"],
        "assumptions": COMMON_ASSUMPTIONS + ["the transcription of the published header into view structs is faithful (it is short and reviewed against bindings.h)", "both debug and release builds of the harness are run"],
    },
    "C01": {
        "jobs": [OBJ_CALLS, OBJ_MIXED],
        "accept": lambda job, cls, site, msg: cls in ("obj.wrong_method", "obj.wrong_instance", "obj.call_count", "obj.result_mismatch", "obj.state_mismatch", "obj.args_altered") or DIED(cls)
        or (job == "obj-calls" and (cls.startswith("crash.") or cls == "obj.panic")),
        "real": OBJ_REAL, "stub": OBJ_STUB, "assumptions": OBJ_ASSUME,
    },
    "C02": {
        "jobs": [OBJ_CALLS, OBJ_MIXED],
        "accept": lambda job, cls, site, msg: cls in ("obj.args_altered", "obj.address_mismatch") or DIED(cls)
        or (cls == "obj.result_mismatch" and (site.startswith(("s_", "r_", "ir_", "ira_", "irm_", "m_res", "m_try")) or "::s_" in site or "::r_" in site or "::ir" in site or "::m_res" in site or "::m_try" in site)),
        "real": OBJ_REAL, "stub": OBJ_STUB, "assumptions": OBJ_ASSUME + ["honest caveat (DESIGN.md section 3/C02): this property is about values; it is claimed because the call histories carry every auto-wrapped shape across the boundary with stateful callee-side digests and address logs"],
    },
    "C06": {
        "jobs": [OBJ_LIFE, OBJ_MIXED, CBOX],
        "accept": lambda job, cls, site, msg: cls.startswith(("life.", "box.", "layout.box")) or DIED(cls),
        "real": OBJ_REAL + ["cglue::boxed (CBox, CSliceBox)"], "stub": OBJ_STUB, "assumptions": OBJ_ASSUME,
    },
    "C07": {
        "jobs": [OBJ_CTX],
        "accept": lambda job, cls, site, msg: cls.startswith("ctx.") or DIED(cls),
        "real": OBJ_REAL, "stub": OBJ_STUB + ["context payload standing for libloading::Library: its destructor is the unload"],
        "assumptions": OBJ_ASSUME + ["the 'released inside the call' clause is decided by a backtrace captured in the context payload's destructor (searching for a cglue_wrapped_ frame), only when the consumed object is the last holder"],
    },
    "C08": {
        "jobs": [OBJ_CASTS],
        "accept": lambda job, cls, site, msg: cls.startswith("cast.") or ("!(" in site and cls.startswith("obj.")) or DIED(cls) or cls == "layout.optional_words",
        "real": OBJ_REAL, "stub": OBJ_STUB, "assumptions": OBJ_ASSUME + ["the property asks for exhaustive enumeration of a finite matrix; this family samples, and reports the matrix cells (group x enabled set x requested set x operation x container) actually hit: 3120 exist for the corpus groups"],
    },
    "C13": {
        "jobs": [OBJ_INTRES, INTRES],
        "accept": lambda job, cls, site, msg: (cls in ("obj.result_mismatch", "obj.args_altered", "obj.call_count") and ("ir_" in site or "ira_" in site or "m_res" in site)) or cls.startswith("intres.") or job == "intres" or DIED(cls)
        or (cls in ("obj.result_mismatch", "obj.args_altered", "obj.call_count") and ("irm_" in site or "fmt" in site)),
        "real": OBJ_REAL + ["cglue::result (IntError impls, into_int_out_result, from_int_result)"], "stub": OBJ_STUB, "assumptions": OBJ_ASSUME,
    },
}


MOD_STABLE = PluginJob(6000, 200000, "stable-release-plugin_debug-host")
MOD_STABLE_RH = PluginJob(3000, 100000, "stable-release-plugin_release-host", host_release=True)
# Rust-layout seeds: every repr(Rust) type of the plugin build is laid out differently per seed, so a
# type that crosses the boundary without a fixed layout is seen by some of them (not by all: a
# two-field struct keeps its order under about half of the seeds)
MOD_NIGHTLY = [PluginJob(300 if k in (3, 5, 6) else 0, 25000, "nightly-randomized-layout-%d" % k, toolchain="nightly", rustflags="-Zrandomize-layout -Zlayout-seed=%d" % k) for k in range(1, 9)]
ALL_JOBS += [MOD_STABLE, MOD_STABLE_RH] + MOD_NIGHTLY
PROPS["C05"] = {
    "jobs": [MOD_STABLE, MOD_STABLE_RH] + MOD_NIGHTLY,
    "accept": lambda job, cls, site, msg: cls != "ctx.clone_leak" and not cls.startswith("harness."),
    "real": ["plugin module: cdylib built separately from the same corpus (own compiler invocation, optimisation level, in the thorough tier another compiler version with randomized repr(Rust) layout), own tagging global allocator",
             "glibc dynamic loader (dlopen through libloading; the Library lives inside the reference-counted context, so the last release is dlclose)",
             "host: objsim (generated glue compiled in the host, vtables and wrappers executed inside the plugin)"],
    "stub": ["implementors report to the host through a C-ABI callback table (no Rust type is shared across the boundary)", "host-side un-erased twin as reference"],
    "assumptions": OBJ_ASSUME + ["only boxed objects with the type-erased reference-counted context cross the boundary (what a plugin hands out)",
                                 "glibc keeps the module mapped after dlclose when plugin code ran on a thread that registered thread-local destructors; the evidence reports how often the module was really unmapped",
                                 "quick tier: stable release plugin x stable debug and release hosts; plus nightly plugins with -Zrandomize-layout seeds 3, 5, 6 at 300 plans each; thorough: nightly plugins with layout seeds 1 to 8"],
}


def _miri(specs):
    def ph(prop, tier, seed, report):
        import miri
        return miri.phase(prop, tier, seed, report, specs, PROPS[prop].get("accept"))
    return ph


PROPS["C10"]["extra_phases"] = [_miri([
    # the free-running slice also runs (much smaller) in the quick tier: it is the only place where
    # instruction-level interleavings of clone/drop are explored, and a check-then-act "last handle"
    # shortcut in the release path is invisible to anything sequential
    {"package": "primsim", "engine": "arc", "free": True, "plans": 48, "seeds": 64, "quick": True},
    {"package": "primsim", "engine": "arc", "free": False, "plans": 300, "seeds": 1},
])]
PROPS["C19"]["extra_phases"] = [_miri([
    {"package": "primsim", "engine": "waker", "free": True, "plans": 48, "seeds": 64, "quick": True},
    {"package": "primsim", "engine": "waker", "free": False, "plans": 300, "seeds": 1},
])]
PROPS["C11"]["extra_phases"] = [_miri([{"package": "primsim", "engine": "vec", "free": False, "plans": 300, "seeds": 1}])]
PROPS["C14"]["extra_phases"] = [_miri([{"package": "primsim", "engine": "cstr", "free": False, "plans": 300, "seeds": 1}])]
PROPS["C15"]["extra_phases"] = [_miri([{"package": "primsim", "engine": "feed", "free": False, "plans": 300, "seeds": 1}])]
PROPS["C13"]["extra_phases"] = [_miri([{"package": "primsim", "engine": "intres", "free": False, "plans": 300, "seeds": 1}]),
                                lambda prop, tier, seed, report: __import__("gensim").phase_expander(prop, tier, seed, report)]
PROPS["C06"]["extra_phases"] = [_miri([{"package": "primsim", "engine": "cbox", "free": False, "plans": 300, "seeds": 1}])]


def _objmiri(focus, plans):
    # leaks are ignored under Miri for objsim: the known C07 finding leaks context clones, which keep
    # the run's bookkeeping alive; the engine's own live-set and allocator oracles cover leaks natively
    return {"package": "objsim", "engine": "obj", "free": False, "plans": plans, "seeds": 1, "flags": "-Zmiri-ignore-leaks", "env": {"SIM_FOCUS": focus}}


PROPS["C01"]["extra_phases"] = [_miri([_objmiri("calls", 120)])]
PROPS["C06"]["extra_phases"] = PROPS["C06"]["extra_phases"] + [_miri([_objmiri("life", 150)])]
PROPS["C07"]["extra_phases"] = [_miri([_objmiri("ctx", 200)])]
PROPS["C08"]["extra_phases"] = [_miri([_objmiri("casts", 100)])]


def _phase_bindgen(prop, tier, seed, report):
    import gensim
    return gensim.phase_bindgen(prop, tier, seed, report)


PROPS["C18"] = {
    "jobs": [],
    "extra_phases": [_phase_bindgen],
    "rule": "one evaluation = one (header model, tool configuration, command-line shape) run through the real cglue-bindgen binary under 6 (quick) / 12 (thorough) process hash seeds with a fake cbindgen subprocess; distinct = distinct output digest; non-trivial = the tool accepted the header and produced output",
    "real": ["cglue-bindgen binary built from /repo (main.rs argument splitting, config, codegen/c.rs, codegen/cpp.rs, types.rs)", "cc -std=c99 -fsyntax-only", "c++ -std=c++11 -fsyntax-only with all templates instantiated", "glibc dynamic loader (LD_PRELOAD)"],
    "stub": ["cbindgen (fake executable on PATH printing the run's header, recording argv, failing on request)", "getrandom (shim: hash seed = f(SIMRAND_SEED))", "input headers (hdrgen: model of cbindgen's output shape, C and C++)"],
    "assumptions": COMMON_ASSUMPTIONS + ["hdrgen is a model of an external tool: its shapes are taken from the regular expressions in codegen/c.rs and from bindings.h; no real cbindgen exists offline", "the C++ header model is narrower than the C one (reference-counted context only, groups over traits without real temporaries, not the configuration that makes NoContext the default context)"],
}


def _phase_wrappers(prop, tier, seed, report):
    import gensim
    return gensim.phase_wrappers(prop, tier, seed, report)


PROPS["C17"] = {
    "jobs": [],
    "extra_phases": [_phase_wrappers],
    "rule": "one evaluation = one C program (host side: seeded sequence of wrapper calls, consuming calls, clones and drop helpers on objects sharing reference-counted contexts; plugin side: mock vtable entries that log slot, container and arguments and release what a consuming entry owns) compiled against the header the real cglue-bindgen produced for one seeded header model, configuration and process hash seed; distinct = distinct processed header x plan; non-trivial = the program ran and at least one vtable entry was invoked through a wrapper",
    "real": ["cglue-bindgen binary built from /repo (types.rs wrapper generator and argument parser, codegen/c.rs and codegen/cpp.rs discovery, naming and text insertion)", "the generated C wrappers, drop helpers and context clone/drop helpers, compiled by cc -std=c99 and executed", "the generated C++ member functions, destructors, container specialisations, CBox/CArc members, compiled by c++ -std=c++11 and executed"],
    "stub": ["cbindgen (fake executable on PATH printing the run's header)", "getrandom (shim: hash seed = f(SIMRAND_SEED))", "input headers (hdrgen: model of cbindgen's output shape)", "vtable entries, CBox and CArc contents (C mocks that log and count)"],
    "assumptions": COMMON_ASSUMPTIONS + ["hdrgen is a model of an external tool (see C18)", "the C++ header model is narrower than the C one: reference-counted context only (a user context has no clone()/drop() members, the no-context spelling of cbindgen's C++ output is unknown here), groups only over traits without real temporaries, no configuration that makes NoContext the default context",
                                          "wrapper names are computed from the naming rules documented in codegen/c.rs; a change of those rules is reported as a missing wrapper",
                                          "the wrapper of a container-returning entry (clone) rebuilds the container only; the C caller copies the vtable pointers"],
}


def _phase_expander(prop, tier, seed, report):
    import gensim
    return gensim.phase_expander(prop, tier, seed, report)


OBJ_LAYOUT = OBJ("casts", 8000, 300000)
OBJ_LAYOUT.label = "obj-layout"
ALL_JOBS.append(OBJ_LAYOUT)
PROPS["C04"] = {
    "jobs": [OBJ_LAYOUT],
    "extra_phases": [_phase_expander],
    "accept": lambda job, cls, site, msg: cls.startswith("layout.") or DIED(cls),
    "rule": "expander part: one evaluation = one run of the real expander (cglue-gen as a library) over the corpus definitions under one process hash seed or one permutation of the trait listing order, its layout projection (repr(C) structs with field names and types in order, vtable default initialisers) compared with the reference; object part: one evaluation = one generated plan whose created group objects are read as raw words, preceded by the concrete-versus-opaque comparison of eight freshly built objects",
    "real": ["cglue-gen (gen_trait, TraitGroup::create_group, TraitGroupImpl::implement_group) linked from /repo and run as a process", "generated group objects read as raw words (objsim)"],
    "stub": ["getrandom (shim: hash seed = f(SIMRAND_SEED))"],
    "assumptions": COMMON_ASSUMPTIONS + ["the projection is deliberately narrower than token-stream equality: the expander legitimately emits items and impl generics in hash order, which changes no layout",
                                         "the 'both sides of a plugin boundary' clause needs the separately compiled module of C05 and is not covered here",
                                         "size/align/bit-pattern equality of opaque and concrete forms is read directly for eight object shapes per run (single-trait objects and groups; Box, &mut and CArcSome instances; no, plain, reference-counted and type-erased reference-counted context), and otherwise covered through the objects behaving correctly after into_opaque (C01/C06)"],
}


def job_for(package, engine, label=None, extra_args=None):
    for j in ALL_JOBS:
        if j.package == package and j.engine == engine and (label is None or j.label == label):
            return j
    return Job(package, engine, 0, 0, extra_args=extra_args or [])


def build_all():
    # everything the quick tier needs (the thorough tier builds its extra variants on demand)
    for j in ALL_JOBS:
        if j.runs["quick"] > 0:
            j.build("quick")
    cargo_build("primsim", True)
    cargo_build("expsim", False)
    import gensim
    gensim.build_shim()
    gensim.build_bindgen()
    # the small Miri slices of the quick tier (C10, C19): compile the interpreter's copy now
    import miri
    miri.run_miri("primsim", "arc", 1, 0, 1, True, 0, thorough=False)


def replay_special(prop, doc, path):
    if doc.get("kind") == "bindgen":
        import gensim
        return gensim.replay_bindgen(prop, doc, path)
    if doc.get("kind") == "wrappers":
        import gensim
        return gensim.replay_wrappers(prop, doc, path)
    if doc.get("kind") == "miri":
        import miri
        return miri.replay(prop, doc, path)
    if doc.get("kind") == "expander":
        import gensim
        return gensim.replay_expander(prop, doc, path)
    raise NotImplementedError(doc.get("kind"))
