"""Miri tiers (thorough only): the same engines and plans under `cargo +nightly miri run`.

Mode A ("baton"): the deterministic baton schedules, with Miri's UB detection (use after free,
double free, invalid value, uninitialised read, leak) added.
Mode B ("free"): the plan is partitioned per logical thread and the threads run unsynchronised
under Miri's own seeded scheduler (-Zmiri-many-seeds, preemption at basic-block granularity, weak
memory emulation, data-race detection): the instruction-level interleavings of the lock-free
clone/drop/wake paths. One (plan, Miri seed) pair is one repeatable execution.

-Zmiri-disable-stacked-borrows is required: the unchanged tree violates the aliasing models at
every type erasure (DESIGN.md section 2.2). Seeds and modes are passed by argv.
"""
import json
import os
import re
import subprocess
import time

from driver_main import CARGO_ENV, REPLAYS, SIM, HarnessError, log

MIRI_TARGET = os.path.join(SIM, "target", "miri")


def miri_cmd(package, engine, seed, lo, hi, free, miri_seeds, thorough, extra_flags="", extra_env=None):
    flags = "-Zmiri-disable-stacked-borrows -Zmiri-preemption-rate=0.1 " + extra_flags
    if isinstance(miri_seeds, tuple):
        flags += " -Zmiri-many-seeds=%d..%d" % miri_seeds
    else:
        flags += " -Zmiri-seed=%d" % miri_seeds
    env = dict(CARGO_ENV, MIRIFLAGS=flags)
    env.update(extra_env or {})
    cmd = ["cargo", "+nightly", "miri", "run", "--offline", "-q", "-p", package, "--target-dir", MIRI_TARGET, "--",
           engine, "run", "--seed", str(seed), "--from", str(lo), "--to", str(hi)]
    if free:
        cmd.append("--free")
    if thorough:
        cmd.append("--thorough")
    return cmd, env


def run_miri(package, engine, seed, lo, hi, free, miri_seeds, thorough=True, timeout=3600, extra_flags="", extra_env=None):
    cmd, env = miri_cmd(package, engine, seed, lo, hi, free, miri_seeds, thorough, extra_flags, extra_env)
    try:
        p = subprocess.run(cmd, cwd=SIM, env=env, stdout=subprocess.PIPE, stderr=subprocess.PIPE, text=True, timeout=timeout, errors="replace")
    except subprocess.TimeoutExpired:
        return {"rc": -1, "error": "timeout", "fails": [], "ok": 0, "cmd": cmd}
    err = p.stderr
    first = None
    m = re.search(r"^error: (.*)$", err, re.M)
    if m:
        first = m.group(1).strip()
    fails = [l for l in p.stdout.splitlines() if l.startswith("FAIL ")]
    ok = sum(1 for l in p.stdout.splitlines() if l.startswith("OK "))
    if p.returncode != 0 and first is None and not fails:
        if "could not compile" in err or "error[E" in err:
            raise HarnessError("the engine does not build under Miri:\n" + "\n".join(err.splitlines()[-20:]))
        first = "process exited with %d: %s" % (p.returncode, " | ".join(err.splitlines()[-3:]))
    return {"rc": p.returncode, "error": first, "fails": fails, "ok": ok, "stderr_tail": "\n".join(err.splitlines()[-25:]), "cmd": cmd}


def classify(error):
    e = error.lower()
    for key, cls in (("data race", "miri.data_race"), ("dangling", "miri.use_after_free"), ("use-after-free", "miri.use_after_free"), ("freed", "miri.use_after_free"),
                     ("double", "miri.double_free"), ("uninitialized", "miri.uninit_read"), ("memory leaked", "miri.leak"), ("leak", "miri.leak"),
                     ("incorrect layout", "miri.dealloc_layout"), ("invalid value", "miri.invalid_value"), ("out-of-bounds", "miri.out_of_bounds")):
        if key in e:
            return cls
    return "miri.error"


def narrow(spec, seed, lo, hi, miri_seeds):
    """Find one failing (plan index, Miri seed) pair."""
    s0, s1 = miri_seeds
    fseed = None
    for ms in range(s0, s1):
        r = run_miri(spec["package"], spec["engine"], seed, lo, hi, spec["free"], ms, extra_flags=spec.get("flags", ""), extra_env=spec.get("env"))
        if r["rc"] != 0 or r["error"] or r["fails"]:
            fseed = ms
            break
    if fseed is None:
        return None
    for i in range(lo, hi):
        r = run_miri(spec["package"], spec["engine"], seed, i, i + 1, spec["free"], fseed, extra_flags=spec.get("flags", ""), extra_env=spec.get("env"))
        if r["rc"] != 0 or r["error"] or r["fails"]:
            return {"run": i, "miri_seed": fseed, "result": r}
    return {"run": lo, "run_to": hi, "miri_seed": fseed, "result": None}


def phase(prop, tier, seed, report, specs, accept=None):
    want_all = tier == "thorough" or os.environ.get("VERIF_MIRI") == "1"
    out = []
    for spec in specs:
        if not want_all and not spec.get("quick"):
            continue
        t0 = time.time()
        plans = spec["plans"] if tier == "thorough" else max(4, spec["plans"] // 8)
        nseeds = spec["seeds"] if tier == "thorough" else max(2, spec["seeds"] // 8)
        miri_seeds = (0, nseeds)
        r = run_miri(spec["package"], spec["engine"], seed, 0, plans, spec["free"], miri_seeds, extra_flags=spec.get("flags", ""), extra_env=spec.get("env"))
        wall = time.time() - t0
        mode = "B (free-running threads, Miri scheduler)" if spec["free"] else "A (baton schedules)"
        report["jobs"].append({"engine": "miri:%s" % spec["engine"], "mode": mode, "plans": plans, "miri_seeds": nseeds,
                               "plan_seed_pairs": plans * nseeds, "wall_s": round(wall, 1), "completed_ok_results": r["ok"]})
        # what is counted is what ran to its end
        report["evaluations"] += r["ok"]
        report["distinct_nontrivial"] += r["ok"] if spec["free"] else min(plans, r["ok"])
        bad = r["rc"] != 0 or r["error"] or r["fails"]
        if not bad:
            if r["ok"] != plans * nseeds:
                # a phase that stops early without saying why has explored less than it claims
                raise HarnessError("Miri phase %s/%s ended with exit 0 after %d of %d plan x seed runs" % (spec["package"], spec["engine"], r["ok"], plans * nseeds))
            continue
        if r["error"] or not r["fails"]:
            # what Miri itself objects to comes first: the run stopped there
            cls = classify(r["error"] or "process failed")
            msg = r["error"] or "process failed without a message"
            own_fail = None
        else:
            # oracles of the engine itself failed under Miri: the first one this property owns
            own_fail = None
            for line in r["fails"]:
                c = line.split(" ")[3]
                if not accept or accept("miri", c, spec["engine"], line):
                    own_fail = line
                    break
            cls = (own_fail or r["fails"][0]).split(" ")[3]
            msg = own_fail or r["fails"][0]
        # an oracle of the engine that failed under Miri is attributed like any other run; what
        # Miri itself objects to (undefined behaviour inside the run) is always reported: a run
        # that Miri stops explores nothing after that point, so it must never pass silently
        if r["fails"] and not r["error"] and own_fail is None:
            log("# engine %s reports %s under Miri, which belongs to another property; not reported here" % (spec["engine"], cls))
            continue
        where = narrow(spec, seed, 0, plans, miri_seeds) or {"run": 0, "run_to": plans, "miri_seed": None}
        os.makedirs(os.path.join(REPLAYS, prop), exist_ok=True)
        path = os.path.join(REPLAYS, prop, "miri-%s-%s-seed%d.json" % (spec["engine"], "free" if spec["free"] else "baton", seed))
        doc = {"kind": "miri", "property": prop, "tier": tier, "seed": seed, "package": spec["package"], "engine": spec["engine"], "free": spec["free"],
               "run": where.get("run"), "run_to": where.get("run_to", (where.get("run") or 0) + 1), "miri_seed": where.get("miri_seed"),
               "flags": spec.get("flags", ""), "env": spec.get("env"),
               "violation": {"class": cls, "site": spec["engine"], "message": msg}, "stderr_tail": r.get("stderr_tail", "")}
        with open(path, "w") as f:
            json.dump(doc, f, indent=1, sort_keys=True)
            f.write("\n")
        out.append({"replay": path, "class": cls, "msg": msg})
    return out


def replay(prop, doc, path):
    ms = doc.get("miri_seed")
    r = run_miri(doc["package"], doc["engine"], doc["seed"], doc["run"], doc["run_to"], doc["free"], ms if ms is not None else (0, 16), extra_flags=doc.get("flags", ""), extra_env=doc.get("env"))
    if r["rc"] != 0 or r["error"] or r["fails"]:
        log("VIOLATION property=%s replay=%s" % (prop, path))
        log("#   %s" % (r["error"] or (r["fails"][0] if r["fails"] else "")))
        return 1
    log("# replay did not fail: the recorded violation (%s) does not occur on this tree" % doc["violation"]["class"])
    return 0
