"""Fidelity anchor of the header model (hdrgen): the API of examples/plugin-api, written as a
hdrgen model, must post-process (with the configuration of examples/pregen-headers) to a header
with the same CGlue structure names, in the same order, and the same wrapper names as the
committed examples/pregen-headers/bindings.h — which was produced from real cbindgen output.
Run: python3 driver/anchor_pregen.py   (exit 0 = agrees)"""
import os
import re
import sys
import tempfile

sys.path.insert(0, os.path.dirname(os.path.abspath(__file__)))
import gensim
import hdrgen
from driver_main import REPO

FG_BOX = "struct FeaturesGroup_CBox_c_void_____CArc_c_void"
FG_MUT = "struct FeaturesGroup_____c_void__CArc_c_void"
MODEL = {
    "v": 2, "seed": 0, "contexts": ["CArc_c_void"], "no_context": False, "leftover": False, "generic_objs": False,
    "foreign_early": False, "foreign_names": False, "guard": True, "callback_payload": "ArgPair", "wrap_long": False,
    "traits": [
        {"name": "MainFeature", "conts": [], "rettmp_real": False, "funcs": [("print_self", "ref", [], "void")]},
        {"name": "KeyValueDumper", "conts": [], "rettmp_real": False, "funcs": [("dump_key_values", "ref", [("struct Callback_c_void__ArgPair", "callback")], "void"), ("print_ints", "ref", [("struct CSliceRef_u8", "iter")], "void")]},
        {"name": "KeyValueStore", "conts": [], "rettmp_real": False, "funcs": [("write_key_value", "mut", [("struct CSliceRef_u8", "name"), ("uintptr_t", "val")], "void"), ("get_key_value", "ref", [("struct CSliceRef_u8", "name")], "uintptr_t")]},
        {"name": "PluginInner", "conts": ["Box"], "rettmp_real": True, "funcs": [("borrow_features", "mut", [], FG_BOX), ("into_features", "own", [], FG_BOX), ("mut_features", "mut", [], FG_MUT + " *")]},
    ],
    "groups": [{"name": "FeaturesGroup", "traits": ["MainFeature", "KeyValueDumper", "KeyValueStore"], "conts": ["Box", "Mut"], "ctxs": ["CArc_c_void"], "clone": True, "clone_pos": 1}],
}
# the Clone trait's zero-sized temporaries exist in the real header too; a trait without objects of its own
MODEL["traits"].insert(1, {"name": "Clone", "conts": [], "rettmp_real": False, "funcs": []})


def names(text):
    structs = re.findall(r"^typedef struct (\w+) \{", text, re.M)
    wrappers = [re.sub(r".*?(\w+)\($", r"\1", m) for m in re.findall(r"^static inline [^\n(]*\(", text, re.M)]
    return structs, wrappers


def main():
    import shutil
    made = []
    orig = tempfile.mkdtemp

    def tracking(*a, **k):
        d = orig(*a, **k)
        made.append(d)
        return d
    tempfile.mkdtemp = tracking
    try:
        return _main()
    finally:
        tempfile.mkdtemp = orig
        for d in made:
            shutil.rmtree(d, ignore_errors=True)


def _main():
    gensim.build_shim()
    gensim.build_bindgen()
    m = dict(MODEL)
    # hdrgen renders groups after the traits and objects; the Clone vtable comes from the group
    m["traits"] = [t for t in MODEL["traits"] if t["name"] != "Clone"]
    header, _ = hdrgen.render(m)
    d = tempfile.mkdtemp(prefix="cglue-verif-anchor-")
    hp = os.path.join(d, "input.h")
    with open(hp, "w") as f:
        f.write(header)
    r = gensim.run_tool(d, hp, {"default_container": "Box", "default_context": "Arc"}, 0, 1)
    if r["rc"] != 0 or r["output"] is None:
        print("tool failed:", r["stderr"])
        return 2
    got_s, got_w = names(r["output"].decode())
    with open(os.path.join(REPO, "examples", "pregen-headers", "bindings.h")) as f:
        ref_s, ref_w = names(f.read())
    cglue = lambda n: any(k in n for k in ("FeaturesGroup", "PluginInner", "CGlueObjContainer", "CGlueTraitObj"))
    ref_s = [n for n in ref_s if cglue(n)]
    got_s = [n for n in got_s if cglue(n)]
    helper = lambda n: n.startswith(("cb_", "ctx_", "cont_"))
    ref_w = [n for n in ref_w if not helper(n)]
    got_w = [n for n in got_w if not helper(n)]
    ok = True
    if set(ref_s) != set(got_s):
        ok = False
        print("structure names differ:\n  only in bindings.h: %s\n  only in the model's output: %s" % (sorted(set(ref_s) - set(got_s)), sorted(set(got_s) - set(ref_s))))
    if set(ref_w) != set(got_w):
        ok = False
        print("wrapper names differ:\n  only in bindings.h: %s\n  only in the model's output: %s" % (sorted(set(ref_w) - set(got_w)), sorted(set(got_w) - set(ref_w))))
    print("# anchor: %d CGlue structure names and %d wrapper names of examples/pregen-headers/bindings.h %s" % (len(ref_s), len(ref_w), "reproduced" if ok else "NOT reproduced"))
    # the same for C++ mode against bindings.hpp: template structure names and member-function names
    mc = dict(m)
    cpp_ret = {FG_BOX: "FeaturesGroup<CBox<void>, CArc<void>>", FG_MUT + " *": "FeaturesGroup<void*, CArc<void>> *"}
    mc["traits"] = [dict(t, funcs=[(f[0], f[1], f[2], cpp_ret.get(f[3], f[3])) for f in t["funcs"]]) for t in m["traits"]]
    hpp, _ = hdrgen.render_cpp(mc)
    hp2 = os.path.join(d, "input.hpp")
    with open(hp2, "w") as f:
        f.write(hpp)
    r2 = gensim.run_tool(d, hp2, {"default_container": "Box", "default_context": "Arc"}, 0, 2)
    if r2["rc"] != 0 or r2["output"] is None:
        print("tool failed in C++ mode:", r2["stderr"])
        return 2

    def cpp_names(text):
        st = set(re.findall(r"^struct (\w+)", text, re.M))
        fn = set(x for pair in re.findall(r"^    inline \S.*?(\w+)\(\) |^    inline [^\n]*? (\w+)\(", text, re.M) for x in pair if x)
        return st, fn

    got_cs, got_cf = cpp_names(r2["output"].decode())
    with open(os.path.join(REPO, "examples", "pregen-headers", "bindings.hpp")) as f:
        ref_cs, ref_cf = cpp_names(f.read())
    payload = {"CIterator", "CPPIterator", "KeyValue", "TypeLayout", "ArgPair", "CSliceMut", "UserTail"}
    ds = (ref_cs ^ got_cs) - payload
    df = (ref_cf ^ got_cf) - {"assume_init"}
    if ds or df:
        ok = False
        print("C++ mode: names differ: structures %s, member functions %s" % (sorted(ds), sorted(df)))
    print("# anchor: %d structure names and %d member-function names of bindings.hpp %s" % (len(ref_cs - payload), len(ref_cf), "reproduced" if not (ds or df) else "NOT reproduced"))
    return 0 if ok else 1


if __name__ == "__main__":
    sys.exit(main())
