"""hdrgen: generator of cbindgen-shaped C headers for seeded API models (DESIGN.md §3/C18, C17).

No cbindgen exists offline, so the input headers of cglue-bindgen are produced here. The shapes are
taken from the regular expressions in cglue-bindgen/src/codegen/c.rs (the tool's own definition of
"supported shape") and from the structures visible in examples/pregen-headers/bindings.h; type
names follow cbindgen's mangling scheme (`_` opens a generic list, `__` separates arguments, `___`
closes a list unless it ends the whole name, `____`/`_____` start a mutable/constant pointer),
which reproduces every name of the pregenerated example header. This is a model of an external
tool; its fidelity is the main assumption of the C17 and C18 checks.

Everything is a pure function of the model seed (own splitmix/xorshift PRNG, no `random`).
"""

MASK = (1 << 64) - 1


class Rng:
    def __init__(self, seed):
        self.s = (seed * 0x9E3779B97F4A7C15 + 0x1234567) & MASK
        if self.s == 0:
            self.s = 1

    def next(self):
        x = self.s
        x ^= (x << 13) & MASK
        x ^= x >> 7
        x ^= (x << 17) & MASK
        self.s = x
        return (x * 0x2545F4914F6CDD1D) & MASK

    def below(self, n):
        return self.next() % n

    def chance(self, a, b):
        return self.below(b) < a

    def pick(self, xs):
        return xs[self.below(len(xs))]


ZST_DOC = """/**
 * Type definition for temporary return value wrapping storage.
 *
 * The trait does not use return wrapping, thus is a typedef to `PhantomData`.
 *
 * Note that `cbindgen` will generate wrong structures for this type. It is important
 * to go inside the generated headers and fix it - all RetTmp structures without a
 * body should be completely deleted, both as types, and as fields in the
 * groups/objects. If C++11 templates are generated, it is important to define a
 * custom type for CGlueTraitObj that does not have `ret_tmp` defined, and change all
 * type aliases of this trait to use that particular structure.
 */
"""

REAL_TMP_DOC = """/**
 * Temporary return value structure, for returning wrapped references.
 *
 * This structure contains data for each vtable function that returns a reference to
 * an associated type. Note that these temporary values should not be accessed
 * directly. Use the trait functions.
 */
"""

VTBL_DOC = """/**
 * CGlue vtable for trait %s.
 *
 * This virtual function table contains ABI-safe interface for the given trait.
 */
"""

OBJ_DOC = """/**
 * Simple CGlue trait object.
 *
 * This is the simplest form of CGlue object, represented by a container and vtable for a single
 * trait.
 *
 * Container merely is a this pointer with some optional temporary return reference context.
 */
"""

CONT_DOC = """/**
 * Simple CGlue trait object container.
 *
 * This is the simplest form of container, represented by an instance, clone context, and
 * temporary return context.
 */
"""

GROUP_DOC = """/**
 * Trait group potentially implementing `%s` traits.
 *
 * Optional traits are not implemented here, however. There are numerous conversion
 * functions available for safely retrieving a concrete collection of traits.
 */
"""

C_VOID = ("c_void", [])
CONT_TYPES = {
    "Box": ("CBox", [C_VOID]),
    "Mut": ("*mut", C_VOID),
    "Ref": ("*const", C_VOID),
}
CONT_FIELD = {
    "Box": "struct CBox_c_void instance;",
    "Mut": "void *instance;",
    "Ref": "const void *instance;",
}
# kept for older replay files / callers
CONTAINERS = {
    "Box": ("CBox_c_void", CONT_FIELD["Box"]),
    "Mut": ("____c_void", CONT_FIELD["Mut"]),
    "Ref": ("_____c_void", CONT_FIELD["Ref"]),
}

SCALARS = ["uint64_t", "int32_t", "uintptr_t", "uint8_t", "bool"]
# (the last one: the out slot of an integer-result entry, `&mut MaybeUninit<CTup2<CSliceRef<u8>, usize>>`:
# a pointer to the payload in C, a pointer to `MaybeUninit<...>` in C++, which the tool strips)
OUT_SLOT = "struct CTup2_CSliceRef_u8__usize *"
RICH_ARGS = ["struct ArgPair", "struct CSliceRef_u8", "const uint8_t *", "void *", "struct Callback_c_void__{cb}", OUT_SLOT]
CB_PAYLOAD_CTYPE = {"ArgPair": "struct ArgPair", "u64": "uint64_t"}
EXTRA_CB_CTYPE = {"u32": "uint32_t", "i64": "int64_t", "u8": "uint8_t"}
TRAILING_WS_DOC = "/**\n * Bytes at the end.  \n * (the line above ends in a hard line break)\t\n */\n"
TRAILING_WS_MARK = " * Bytes at the end.  \n * (the line above ends in a hard line break)\t\n"


def ctx_type(ctx):
    if ctx == "CArc_c_void":
        return ("CArc", [C_VOID])
    return (ctx, [])


def mangle(t, last=True):
    """cbindgen's name mangling of a generic path."""
    name, args = t
    if name == "*mut":
        return "____" + mangle(args, last)
    if name == "*const":
        return "_____" + mangle(args, last)
    if not args:
        return name
    s = name + "_"
    for i, a in enumerate(args):
        if i:
            s += "__"
        s += mangle(a, last and i == len(args) - 1)
    if not last:
        s += "___"
    return s


def t_rettmp(trait, ctx):
    return (trait + "RetTmp", [ctx_type(ctx)])


def t_objcont(cont, ctx, trait):
    return ("CGlueObjContainer", [CONT_TYPES[cont], ctx_type(ctx), t_rettmp(trait, ctx)])


def t_obj(cont, ctx, trait):
    return ("CGlueTraitObj", [CONT_TYPES[cont], (trait + "Vtbl", [t_objcont(cont, ctx, trait)]), ctx_type(ctx), t_rettmp(trait, ctx)])


def t_gcont(group, cont, ctx):
    return (group + "Container", [CONT_TYPES[cont], ctx_type(ctx)])


def t_group(group, cont, ctx):
    return (group, [CONT_TYPES[cont], ctx_type(ctx)])


def cont_name(cont, ctx, trait):
    return mangle(t_objcont(cont, ctx, trait))


NAME_SETS = [["Alpha", "Beta", "Gamma"], ["Alpha", "Beta", "Gamma"], ["Store", "KeyStore", "Gamma"], ["KeyStore", "Store", "Beta"]]


def gen_model(seed):
    r = Rng(seed)
    ntraits = 1 + r.below(3)
    user_ctxs = [["MyCtx"], ["MyCtx", "OtherCtx"], [], []][r.below(4)]
    if seed % 3 == 0 and not user_ctxs:
        user_ctxs = ["MyCtx"]
    contexts = ["CArc_c_void"] + user_ctxs
    names = r.pick(NAME_SETS)
    rich = r.chance(1, 2)
    cb = "u64" if r.chance(1, 4) else "ArgPair"
    shared_name = r.chance(1, 4)
    touchy_names = seed % 7 == 3
    traits = []
    for ti in range(ntraits):
        name = names[ti]
        funcs = []
        for fi in range(1 + r.below(3)):
            kind = r.pick(["ref", "ref", "mut", "own"])
            pool = SCALARS + (RICH_ARGS if rich else [])
            args = [(r.pick(pool).replace("{cb}", cb), "a%d" % k) for k in range(r.below(5 if rich else 3))]
            if args and touchy_names and r.chance(1, 2):
                # a user's argument may carry a name the generated wrapper text uses itself
                k = r.below(len(args))
                args[k] = (args[k][0], r.pick(["container", "context", "instance", "vtbl", "ret"]))
            ret = r.pick(["void"] + SCALARS + (["struct ArgPair", "const uint8_t *", "void *"] if rich else []))
            fname = "%s_f%d" % (name.lower(), fi)
            if shared_name and fi == 0:
                fname = "common_op"
            funcs.append((fname, kind, args, ret))
        conts = [c for c in ("Box", "Mut", "Ref") if r.chance(1, 2)] or ["Box"]
        traits.append({"name": name, "funcs": funcs, "conts": conts, "rettmp_real": ti >= 1 and r.chance(1, 3)})
    groups = []
    # (a group's own name may end in the suffix the tool appends to find group containers)
    gnames = ["DepotContainer", "Kit"] if seed % 5 == 2 else ["Bundle", "Kit"]
    if r.chance(1, 2):
        for gi in range(1 + r.below(2)):
            members = [t["name"] for t in traits if r.chance(2, 3)] or [traits[0]["name"]]
            g = {
                "name": gnames[gi],
                "traits": members,
                "conts": [c for c in ("Box", "Mut") if r.chance(1, 2)] or ["Box"],
                "ctxs": [contexts[0]] + ([contexts[1]] if len(contexts) > 1 and r.chance(1, 3) else []),
                "clone": r.chance(1, 2),
            }
            # where the Clone vtable sits among the group's vtables (groups order them by name)
            g["clone_pos"] = r.below(len(members) + 1)
            if g["clone"]:
                # Clone exists for boxed instances only, and the wrapper of a container-returning
                # entry is typed for one instantiation: one context per cloneable group (as in the
                # pregenerated example)
                if "Box" not in g["conts"]:
                    g["conts"] = ["Box"] + g["conts"]
                g["ctxs"] = g["ctxs"][:1]
            groups.append(g)
    model = {
        "v": 2,
        "seed": seed,
        "traits": traits,
        "groups": groups,
        "contexts": contexts,
        "callback_payload": cb,
        # long vtable entries broken over several lines, as cbindgen does beyond its line length
        "wrap_long": r.chance(1, 2),
        # a reference to abi_stable's TypeLayout that cbindgen leaves undeclared (examples/plugin-api)
        "type_layout": r.chance(1, 4),
        "no_context": r.chance(1, 4),
        "leftover": r.chance(2, 3),
        "generic_objs": r.chance(1, 3),
        "foreign_early": r.chance(1, 2),
        "foreign_names": r.chance(1, 2),
        "guard": r.chance(1, 2),
        # a user comment with markdown hard line breaks (trailing blanks) - text the tool has to pass through
        "trailing_ws": r.chance(1, 2),
        # callback instantiations beyond the one the vtables use (the C helpers are emitted per payload type)
        "extra_callbacks": [["u32"], ["u32", "i64", "u8"], [], []][r.below(4)],
    }
    return model


def obj_contexts(model):
    return list(model["contexts"]) + (["NoContext"] if model.get("no_context") else [])


def field_ctx(ctx):
    return "struct %s context;" % ctx


def wrap_entry(head, parts, wrap):
    """cbindgen breaks an entry that exceeds its line length after every argument, aligning the
    continuation lines with the first argument."""
    if not wrap or len(parts) < 3:
        return "    %s%s);" % (head, ", ".join(parts))
    pad = " " * (4 + len(head))
    return "    %s%s);" % (head, (",\n" + pad).join(parts))


def vtbl_lines(funcs, cn, v1_cont=None, wrap=False):
    lines = []
    for (fname, kind, args, ret) in funcs:
        if v1_cont is not None and kind == "own" and v1_cont != "Box":
            continue
        recv = {"ref": "const struct %s *cont" % cn, "mut": "struct %s *cont" % cn, "own": "struct %s cont" % cn}[kind]
        parts = [recv] + ["%s%s%s" % (a[0], "" if a[0].endswith("*") else " ", a[1]) for a in args]
        lines.append(wrap_entry("%s%s(*%s)(" % (ret, "" if ret.endswith("*") else " ", fname), parts, wrap))
    return lines


def object_types(model):
    """Every object/group instantiation of the header, in header order: what a C user can hold."""
    out = []
    v1 = model.get("v", 1) < 2
    for t in model["traits"]:
        for cont in t["conts"]:
            for ctx in (model["contexts"] if v1 else obj_contexts(model)):
                if v1:
                    cn = "CGlueObjContainer_%s_____%s_____%sRetTmp_%s" % (CONTAINERS[cont][0], ctx, t["name"], ctx)
                    vn = "%sVtbl_%s" % (t["name"], cn)
                    on = "CGlueTraitObj_%s_____%s______________%s_____%sRetTmp_%s" % (CONTAINERS[cont][0], vn, ctx, t["name"], ctx)
                else:
                    cn = mangle(t_objcont(cont, ctx, t["name"]))
                    vn = mangle((t["name"] + "Vtbl", [t_objcont(cont, ctx, t["name"])]))
                    on = mangle(t_obj(cont, ctx, t["name"]))
                out.append({"kind": "obj", "name": t["name"], "cont": cont, "ctx": ctx, "struct": on, "container": cn,
                            "vtbls": [{"trait": t["name"], "type": vn, "field": "vtbl", "funcs": t["funcs"] if not v1 else [f for f in t["funcs"] if not (f[1] == "own" and cont != "Box")]}],
                            "ret_tmp": ["ret_tmp"] if t.get("rettmp_real") else []})
    for g in model.get("groups", []):
        tmap = {t["name"]: t for t in model["traits"]}
        for cont in g["conts"]:
            for ctx in g["ctxs"]:
                cn = mangle(t_gcont(g["name"], cont, ctx))
                gn = mangle(t_group(g["name"], cont, ctx))
                vt = []
                for tn in g["traits"]:
                    vt.append({"trait": tn, "type": mangle((tn + "Vtbl", [t_gcont(g["name"], cont, ctx)])), "field": "vtbl_" + tn.lower(), "funcs": tmap[tn]["funcs"]})
                if g.get("clone"):
                    vt.insert(min(g.get("clone_pos", len(vt)), len(vt)), {"trait": "Clone", "type": mangle(("CloneVtbl", [t_gcont(g["name"], cont, ctx)])), "field": "vtbl_clone", "funcs": [("clone", "ref", [], "struct " + cn)]})
                out.append({"kind": "group", "name": g["name"], "cont": cont, "ctx": ctx, "struct": gn, "container": cn, "vtbls": vt,
                            "ret_tmp": ["ret_tmp_" + tn.lower() for tn in g["traits"] if tmap[tn].get("rettmp_real")]})
    return out


def render(model):
    """Returns (header text, ordered list of foreign declaration markers)."""
    if model.get("v", 1) < 2:
        return render_v1(model)
    out = []
    w = out.append
    foreign = []
    if model["guard"]:
        w("#ifndef BINDINGS_H\n#define BINDINGS_H\n")
    w("#include <stdarg.h>\n#include <stdbool.h>\n#include <stdint.h>\n#include <stdlib.h>\n")
    if model["foreign_early"]:
        w("/**\n * A user structure unrelated to CGlue.\n */\ntypedef struct UserPoint {\n    int32_t x;\n    int32_t y;\n} UserPoint;\n")
        foreign.append("typedef struct UserPoint {")
    w("/**\n * FFI-safe box\n */\ntypedef struct CBox_c_void {\n    void *instance;\n    void (*drop_fn)(void*);\n} CBox_c_void;\n")
    w("/**\n * FFI-Safe Arc\n */\ntypedef struct CArc_c_void {\n    const void *instance;\n    const void *(*clone_fn)(const void*);\n    void (*drop_fn)(const void*);\n} CArc_c_void;\n")
    for c in model["contexts"][1:]:
        w("/**\n * A user context type.\n */\ntypedef struct %s {\n    uint64_t tag;\n    void *handle;\n} %s;\n" % (c, c))
    w("/**\n * A two-field argument structure.\n */\ntypedef struct ArgPair {\n    uint32_t a;\n    uint64_t b;\n} ArgPair;\n")
    w("/**\n * Wrapper around const slices.\n */\ntypedef struct CSliceRef_u8 {\n    const uint8_t *data;\n    uintptr_t len;\n} CSliceRef_u8;\n")
    if any(a[0] == OUT_SLOT for t in model["traits"] for f in t["funcs"] for a in f[2]):
        w("/**\n * FFI-safe 2 element tuple.\n */\ntypedef struct CTup2_CSliceRef_u8__usize {\n    struct CSliceRef_u8 _0;\n    uintptr_t _1;\n} CTup2_CSliceRef_u8__usize;\n")
    cb = model.get("callback_payload", "ArgPair")
    w("/**\n * FFI-safe callback.\n */\ntypedef struct Callback_c_void__%s {\n    void *context;\n    bool (*func)(void*, %s);\n} Callback_c_void__%s;\n" % (cb, CB_PAYLOAD_CTYPE[cb], cb))
    for x in model.get("extra_callbacks", []):
        w("/**\n * FFI-safe callback.\n */\ntypedef struct Callback_c_void__%s {\n    void *context;\n    bool (*func)(void*, %s);\n} Callback_c_void__%s;\n" % (x, EXTRA_CB_CTYPE[x], x))
    if model["foreign_names"]:
        # user declarations whose names resemble CGlue patterns
        w("/**\n * Not a CGlue vtable, despite the name.\n */\ntypedef struct UserVtblLike {\n    void (*callback)(void *ctx);\n    uintptr_t RetTmp_count;\n} UserVtblLike;\n")
        foreign.append("typedef struct UserVtblLike {")
    octx = obj_contexts(model)
    tmap = {t["name"]: t for t in model["traits"]}
    for t in model["traits"]:
        T = t["name"]
        for ctx in octx:
            rn = mangle(t_rettmp(T, ctx))
            if t.get("rettmp_real"):
                w("\n" + REAL_TMP_DOC + "typedef struct %s {\n    uint64_t %s_slot[2];\n} %s;\n" % (rn, T.lower(), rn))
            else:
                w("\n" + ZST_DOC + "typedef struct %s %s;\n" % (rn, rn))
        for cont in t["conts"]:
            for ctx in octx:
                cn = mangle(t_objcont(cont, ctx, T))
                rn = mangle(t_rettmp(T, ctx))
                w(CONT_DOC + "typedef struct %s {\n    %s\n    %s\n    struct %s ret_tmp;\n} %s;\n" % (cn, CONT_FIELD[cont], field_ctx(ctx), rn, cn))
                vn = mangle((T + "Vtbl", [t_objcont(cont, ctx, T)]))
                w(VTBL_DOC % T + "typedef struct %s {\n%s\n} %s;\n" % (vn, "\n".join(vtbl_lines(t["funcs"], cn, wrap=model.get("wrap_long", False))), vn))
                on = mangle(t_obj(cont, ctx, T))
                w(OBJ_DOC + "typedef struct %s {\n    const struct %s *vtbl;\n    struct %s container;\n} %s;\n" % (on, vn, cn, on))
                w("/**\n * Base CGlue trait object for trait %s.\n */\ntypedef struct %s %s;\n" % (T, on, mangle((T + "Base", [CONT_TYPES[cont], ctx_type(ctx)]))))
    for g in model.get("groups", []):
        G = g["name"]
        for cont in g["conts"]:
            for ctx in g["ctxs"]:
                cn = mangle(t_gcont(G, cont, ctx))
                tmp_fields = "".join("    struct %s ret_tmp_%s;\n" % (mangle(t_rettmp(tn, ctx)), tn.lower()) for tn in g["traits"])
                w("typedef struct %s {\n    %s\n    %s\n%s} %s;\n" % (cn, CONT_FIELD[cont], field_ctx(ctx), tmp_fields, cn))
                vfields = []
                for tn in g["traits"]:
                    vn = mangle((tn + "Vtbl", [t_gcont(G, cont, ctx)]))
                    w(VTBL_DOC % tn + "typedef struct %s {\n%s\n} %s;\n" % (vn, "\n".join(vtbl_lines(tmap[tn]["funcs"], cn, wrap=model.get("wrap_long", False))), vn))
                    vfields.append("    const struct %s *vtbl_%s;" % (vn, tn.lower()))
                if g.get("clone"):
                    vn = mangle(("CloneVtbl", [t_gcont(G, cont, ctx)]))
                    w(VTBL_DOC % "Clone" + "typedef struct %s {\n    struct %s (*clone)(const struct %s *cont);\n} %s;\n" % (vn, cn, cn, vn))
                    vfields.insert(min(g.get("clone_pos", len(vfields)), len(vfields)), "    const struct %s *vtbl_clone;" % vn)
                gn = mangle(t_group(G, cont, ctx))
                w(GROUP_DOC % " + ".join("%s < >" % tn for tn in g["traits"]) + "typedef struct %s {\n%s\n    struct %s container;\n} %s;\n" % (gn, "\n".join(vfields), cn, gn))
    if model.get("generic_objs") and not model["traits"][0].get("rettmp_real"):
        # the same single-trait object also exposed generically over the context (cbindgen keeps a
        # `Context`-parametrised copy next to the concrete ones)
        t = model["traits"][0]
        T = t["name"]
        cont = t["conts"][0]
        rn = mangle(t_rettmp(T, "Context"))
        w("\n" + ZST_DOC + "typedef struct %s %s;\n" % (rn, rn))
        cn = mangle(t_objcont(cont, "Context", T))
        w(CONT_DOC + "typedef struct %s {\n    %s\n    Context context;\n    struct %s ret_tmp;\n} %s;\n" % (cn, CONT_FIELD[cont], rn, cn))
        vn = mangle((T + "Vtbl", [t_objcont(cont, "Context", T)]))
        w(VTBL_DOC % T + "typedef struct %s {\n%s\n} %s;\n" % (vn, "\n".join(vtbl_lines(t["funcs"], cn, wrap=model.get("wrap_long", False))), vn))
        on = mangle(t_obj(cont, "Context", T))
        w(OBJ_DOC + "typedef struct %s {\n    const struct %s *vtbl;\n    struct %s container;\n} %s;\n\n" % (on, vn, cn, on))
    if model["leftover"]:
        # a structure cbindgen left generic over the context
        w("/**\n * Holder that is generic over the context.\n */\ntypedef struct Holder_____c_void__Context {\n    void *instance;\n    Context context;\n    uint32_t flags;\n} Holder_____c_void__Context;\n\n")
    if model.get("trailing_ws"):
        w(TRAILING_WS_DOC + "typedef struct UserTail {\n    uint8_t bytes[4];\n} UserTail;\n")
        foreign.append(TRAILING_WS_MARK)
    else:
        w("typedef struct UserTail {\n    uint8_t bytes[4];\n} UserTail;\n")
    foreign.append("typedef struct UserTail {")
    w("#ifdef __cplusplus\nextern \"C\" {\n#endif // __cplusplus\n")
    w("void user_free_function(struct UserTail *tail, uintptr_t n);\n")
    foreign.append("void user_free_function(struct UserTail *tail, uintptr_t n);")
    if model.get("type_layout"):
        w("extern const TypeLayout *ROOT_LAYOUT;\n")
        foreign.append("extern const TypeLayout *ROOT_LAYOUT;")
    t0 = [t for t in model["traits"] if t["conts"]][0]
    cn0 = cont_name(t0["conts"][0], "CArc_c_void", t0["name"])
    w("int32_t create_%s(struct CArc_c_void *lib, struct %s *out);\n" % (t0["name"].lower(), cn0))
    foreign.append("int32_t create_%s(" % t0["name"].lower())
    w("#ifdef __cplusplus\n} // extern \"C\"\n#endif // __cplusplus\n")
    if model["guard"]:
        w("#endif /* BINDINGS_H */\n")
    return "\n".join(out), foreign


def render_v1(model):
    """The first generation of the header model (kept so that recorded replay files and the
    archived C18 witness keep meaning what they meant)."""
    out = []
    w = out.append
    foreign = []
    if model["guard"]:
        w("#ifndef BINDINGS_H\n#define BINDINGS_H\n")
    w("#include <stdarg.h>\n#include <stdbool.h>\n#include <stdint.h>\n#include <stdlib.h>\n")
    if model["foreign_early"]:
        w("/**\n * A user structure unrelated to CGlue.\n */\ntypedef struct UserPoint {\n    int32_t x;\n    int32_t y;\n} UserPoint;\n")
        foreign.append("typedef struct UserPoint {")
    w("/**\n * FFI-safe box\n */\ntypedef struct CBox_c_void {\n    void *instance;\n    void (*drop_fn)(void*);\n} CBox_c_void;\n")
    w("/**\n * FFI-Safe Arc\n */\ntypedef struct CArc_c_void {\n    const void *instance;\n    const void *(*clone_fn)(const void*);\n    void (*drop_fn)(const void*);\n} CArc_c_void;\n")
    for c in model["contexts"][1:]:
        w("/**\n * A user context type.\n */\ntypedef struct %s {\n    uint64_t tag;\n    void *handle;\n} %s;\n" % (c, c))
    if model["foreign_names"]:
        w("/**\n * Not a CGlue vtable, despite the name.\n */\ntypedef struct UserVtblLike {\n    void (*callback)(void *ctx);\n    uintptr_t RetTmp_count;\n} UserVtblLike;\n")
        foreign.append("typedef struct UserVtblLike {")
    for t in model["traits"]:
        T = t["name"]
        for ctx in model["contexts"]:
            w("\n" + ZST_DOC + "typedef struct %sRetTmp_%s %sRetTmp_%s;\n" % (T, ctx, T, ctx))
        for cont in t["conts"]:
            for ctx in model["contexts"]:
                cn = "CGlueObjContainer_%s_____%s_____%sRetTmp_%s" % (CONTAINERS[cont][0], ctx, T, ctx)
                w(CONT_DOC + "typedef struct %s {\n    %s\n    %s context;\n    struct %sRetTmp_%s ret_tmp;\n} %s;\n" % (
                    cn, CONTAINERS[cont][1], "struct " + ctx, T, ctx, cn))
                vn = "%sVtbl_%s" % (T, cn)
                lines = vtbl_lines(t["funcs"], cn, v1_cont=cont)
                if not lines:
                    lines.append("    void (*%s_noop)(const struct %s *cont);" % (T.lower(), cn))
                w(VTBL_DOC % T + "typedef struct %s {\n%s\n} %s;\n" % (vn, "\n".join(lines), vn))
                on = "CGlueTraitObj_%s_____%s______________%s_____%sRetTmp_%s" % (CONTAINERS[cont][0], vn, ctx, T, ctx)
                w(OBJ_DOC + "typedef struct %s {\n    const struct %s *vtbl;\n    struct %s container;\n} %s;\n" % (on, vn, cn, on))
                w("/**\n * Base CGlue trait object for trait %s.\n */\ntypedef struct %s %sBase_%s_____%s;\n" % (T, on, T, CONTAINERS[cont][0], ctx))
    if model.get("generic_objs"):
        t = model["traits"][0]
        T = t["name"]
        cont = t["conts"][0]
        w("\n" + ZST_DOC + "typedef struct %sRetTmp_Context %sRetTmp_Context;\n" % (T, T))
        cn = "CGlueObjContainer_%s_____Context__%sRetTmp_Context" % (CONTAINERS[cont][0], T)
        w(CONT_DOC + "typedef struct %s {\n    %s\n    Context context;\n    struct %sRetTmp_Context ret_tmp;\n} %s;\n" % (cn, CONTAINERS[cont][1], T, cn))
        vn = "%sVtbl_%s" % (T, cn)
        lines = vtbl_lines(t["funcs"], cn, v1_cont=cont)
        if not lines:
            lines.append("    void (*%s_noop)(const struct %s *cont);" % (T.lower(), cn))
        w(VTBL_DOC % T + "typedef struct %s {\n%s\n} %s;\n" % (vn, "\n".join(lines), vn))
        on = "CGlueTraitObj_%s_____%s___________Context__%sRetTmp_Context" % (CONTAINERS[cont][0], vn, T)
        w(OBJ_DOC + "typedef struct %s {\n    const struct %s *vtbl;\n    struct %s container;\n} %s;\n\n" % (on, vn, cn, on))
    if model["leftover"]:
        w("/**\n * Holder that is generic over the context.\n */\ntypedef struct Holder_____c_void__Context {\n    void *instance;\n    Context context;\n    uint32_t flags;\n} Holder_____c_void__Context;\n\n")
    w("typedef struct UserTail {\n    uint8_t bytes[4];\n} UserTail;\n")
    foreign.append("typedef struct UserTail {")
    w("#ifdef __cplusplus\nextern \"C\" {\n#endif // __cplusplus\n")
    w("void user_free_function(struct UserTail *tail, uintptr_t n);\n")
    foreign.append("void user_free_function(struct UserTail *tail, uintptr_t n);")
    t0 = model["traits"][0]
    cn0 = "CGlueObjContainer_%s_____%s_____%sRetTmp_%s" % (CONTAINERS[t0["conts"][0]][0], "CArc_c_void", t0["name"], "CArc_c_void")
    w("int32_t create_%s(struct CArc_c_void *lib, struct %s *out);\n" % (t0["name"].lower(), cn0))
    foreign.append("int32_t create_%s(" % t0["name"].lower())
    w("#ifdef __cplusplus\n} // extern \"C\"\n#endif // __cplusplus\n")
    if model["guard"]:
        w("#endif /* BINDINGS_H */\n")
    return "\n".join(out), foreign


def layout_asserts(model):
    """C99 text: for every CGlue container and object of the model, a mirror structure built from
    the model alone (instance, context unless NoContext, temporaries only where the trait really
    has them) and compile-time comparisons of size and of every field offset."""
    lines = ["#include <stddef.h>", "#define LAYOUT_EQ(n, c) typedef char layout_assert_##n[(c) ? 1 : -1]"]
    k = 0
    for o in object_types(model):
        k += 1
        fields = [CONT_FIELD[o["cont"]]]
        names = ["instance"]
        if o["ctx"] != "NoContext":
            fields.append(field_ctx(o["ctx"]))
            names.append("context")
        for rt in o["ret_tmp"]:
            fields.append("uint64_t %s[2];" % rt)
            names.append(rt)
        lines.append("struct mirror_cont_%d { %s };" % (k, " ".join(fields)))
        lines.append("LAYOUT_EQ(cs%d, sizeof(struct %s) == sizeof(struct mirror_cont_%d));" % (k, o["container"], k))
        for n in names:
            lines.append("LAYOUT_EQ(c%d_%s, offsetof(struct %s, %s) == offsetof(struct mirror_cont_%d, %s));" % (k, n, o["container"], n, k, n))
        vf = " ".join("const void *%s;" % v["field"] for v in o["vtbls"])
        lines.append("struct mirror_obj_%d { %s struct mirror_cont_%d container; };" % (k, vf, k))
        lines.append("LAYOUT_EQ(os%d, sizeof(struct %s) == sizeof(struct mirror_obj_%d));" % (k, o["struct"], k))
        for v in o["vtbls"]:
            lines.append("LAYOUT_EQ(o%d_%s, offsetof(struct %s, %s) == offsetof(struct mirror_obj_%d, %s));" % (k, v["field"], o["struct"], v["field"], k, v["field"]))
        lines.append("LAYOUT_EQ(o%d_container, offsetof(struct %s, container) == offsetof(struct mirror_obj_%d, container));" % (k, o["struct"], k))
    return "\n".join(lines) + "\n"


def describe(model):
    return {
        "seed": model["seed"],
        "traits": [{"name": t["name"], "containers": t["conts"], "real_ret_tmp": bool(t.get("rettmp_real")), "functions": [(f[0], f[1], len(f[2]), f[3]) for f in t["funcs"]]} for t in model["traits"]],
        "groups": [{"name": g["name"], "traits": g["traits"], "containers": g["conts"], "contexts": g["ctxs"], "clone": g.get("clone", False)} for g in model.get("groups", [])],
        "contexts": model["contexts"],
        "no_context_objects": bool(model.get("no_context")),
        "callback_payload": model.get("callback_payload"),
        "long_entries_wrapped": bool(model.get("wrap_long")),
        "context_generic_leftover": model["leftover"],
        "context_generic_trait_object": model.get("generic_objs", False),
        "foreign_early": model["foreign_early"],
        "foreign_cglue_like_names": model["foreign_names"],
        "include_guard": model["guard"],
    }


if __name__ == "__main__":
    import sys
    m = gen_model(int(sys.argv[1]) if len(sys.argv) > 1 else 1)
    print(render(m)[0])


# ---------------------------------------------------------------------------------------------
# C++ mode
# ---------------------------------------------------------------------------------------------

GROUP_DOC_CPP = """/**
 * Trait group potentially implementing `%s` traits.
 *
 * Optional traits are not implemented here, however. There are numerous conversion
 * functions available for safely retrieving a concrete collection of traits.
 *
 * `check_impl_` functions allow to check if the object implements the wanted traits.
 *
 * `into_impl_` functions consume the object and produce a new final structure that
 * keeps only the required information.
 *
 * `cast_impl_` functions merely check and transform the object into a type that can
 *be transformed back into `%s` without losing data.
 *
 * `as_ref_`, and `as_mut_` functions obtain references to safe objects, but do not
 * perform any memory transformations either. They are the safest to use, because
 * there is no risk of accidentally consuming the whole object.
 */
"""

CPP_CONT = {"Box": "CBox<void>", "Mut": "void *", "Ref": "const void *"}


def cpp_type(ty, model):
    cb = model.get("callback_payload", "ArgPair")
    if ty == "struct ArgPair":
        return "ArgPair"
    if ty == "struct CSliceRef_u8":
        return "CSliceRef<uint8_t>"
    if ty.startswith("struct Callback_c_void__"):
        return "OpaqueCallback<%s>" % ("ArgPair" if cb == "ArgPair" else "uint64_t")
    if ty == OUT_SLOT:
        return "MaybeUninit<CTup2<CSliceRef<uint8_t>, uintptr_t>> *"
    return ty


def cpp_type_processed(ty, model):
    """The same type as a user of the processed header sees it (the tool strips MaybeUninit)."""
    if ty == OUT_SLOT:
        return "CTup2<CSliceRef<uint8_t>, uintptr_t> *"
    return cpp_type(ty, model)


def cpp_model(model):
    """The part of a model that has a C++ rendering here: reference-counted context only (a user
    context structure has no clone()/drop() members for the generated containers to call, and how
    cbindgen spells the no-context type in C++ is not known here); groups keep the traits without
    real temporaries (the group-container pattern of codegen/cpp.rs has no place for the others)."""
    m = dict(model)
    m["contexts"] = ["CArc_c_void"]
    m["no_context"] = False
    real = {t["name"] for t in model["traits"] if t.get("rettmp_real")}
    groups = []
    for g in model.get("groups", []):
        tr = [t for t in g["traits"] if t not in real]
        if tr:
            groups.append(dict(g, traits=tr, ctxs=["CArc_c_void"]))
    m["groups"] = groups
    m["generic_objs"] = False
    m["leftover"] = False
    m["lang"] = "cpp"
    return m


def cpp_vtbl_lines(funcs, model, clone=False):
    lines = []
    for (fname, kind, args, ret) in funcs:
        recv = {"ref": "const CGlueC *cont", "mut": "CGlueC *cont", "own": "CGlueC cont"}[kind]
        al = [recv]
        for a in args:
            ct = cpp_type(a[0], model)
            al.append("%s%s%s" % (ct, "" if ct.endswith("*") else " ", a[1]))
        rt = "CGlueC" if clone else cpp_type(ret, model)
        lines.append(wrap_entry("%s%s(*%s)(" % (rt, "" if rt.endswith("*") else " ", fname), al, model.get("wrap_long", False)))
    return lines


def render_cpp(model):
    """cbindgen's C++ output for the model (templates once, instantiations as aliases)."""
    m = cpp_model(model)
    out = []
    w = out.append
    foreign = []
    w("#include <cstdarg>\n#include <cstdint>\n#include <cstdlib>\n#include <ostream>\n#include <new>\n")
    w("template<typename T = void>\nstruct MaybeUninit;\n")
    if m["foreign_early"]:
        w("/**\n * A user structure unrelated to CGlue.\n */\nstruct UserPoint {\n    int32_t x;\n    int32_t y;\n};\n")
        foreign.append("struct UserPoint {")
    w("/**\n * FFI-Safe Arc\n */\ntemplate<typename T>\nstruct CArc {\n    const T *instance;\n    const T *(*clone_fn)(const T*);\n    void (*drop_fn)(const T*);\n};\n")
    w("/**\n * FFI-safe box\n */\ntemplate<typename T>\nstruct CBox {\n    T *instance;\n    void (*drop_fn)(T*);\n};\n")
    w("/**\n * A two-field argument structure.\n */\nstruct ArgPair {\n    uint32_t a;\n    uint64_t b;\n};\n")
    uses_slot = any(a[0] == OUT_SLOT for t in m["traits"] for f in t["funcs"] for a in f[2])
    uses_ref = uses_slot or any(a[0] == "struct CSliceRef_u8" for t in m["traits"] for f in t["funcs"] for a in f[2])
    if uses_ref or m["seed"] % 3 != 0:
        w("/**\n * Wrapper around const slices.\n */\ntemplate<typename T>\nstruct CSliceRef {\n    const T *data;\n    uintptr_t len;\n};\n")
    if uses_slot:
        w("/**\n * FFI-safe 2 element tuple.\n */\ntemplate<typename A, typename B>\nstruct CTup2 {\n    A _0;\n    B _1;\n};\n")
    # a crate may expose mutable slices only
    w("/**\n * Wrapper around mutable slices.\n */\ntemplate<typename T>\nstruct CSliceMut {\n    T *data;\n    uintptr_t len;\n};\n")
    w("/**\n * FFI-safe callback.\n */\ntemplate<typename T, typename F>\nstruct Callback {\n    T *context;\n    bool (*func)(T*, F);\n};\n")
    w("template<typename T>\nusing OpaqueCallback = Callback<void, T>;\n")
    if m["foreign_names"]:
        w("/**\n * Not a CGlue vtable, despite the name.\n */\nstruct UserVtblLike {\n    void (*callback)(void *ctx);\n    uintptr_t RetTmp_count;\n};\n")
        foreign.append("struct UserVtblLike {")
    tmap = {t["name"]: t for t in m["traits"]}
    for t in m["traits"]:
        T = t["name"]
        if t.get("rettmp_real"):
            w(REAL_TMP_DOC + "template<typename CGlueCtx>\nstruct %sRetTmp {\n    uint64_t %s_slot[2];\n};\n" % (T, T.lower()))
        else:
            w("\n" + ZST_DOC + "template<typename CGlueCtx = void>\nstruct %sRetTmp;\n" % T)
    for g in m["groups"]:
        G = g["name"]
        tmp = "".join("    %sRetTmp<CGlueCtx> ret_tmp_%s;\n" % (tn, tn.lower()) for tn in g["traits"])
        w("template<typename CGlueInst, typename CGlueCtx>\nstruct %sContainer {\n    CGlueInst instance;\n    CGlueCtx context;\n%s};\n" % (G, tmp))
    for t in m["traits"]:
        w(VTBL_DOC % t["name"] + "template<typename CGlueC>\nstruct %sVtbl {\n%s\n};\n" % (t["name"], "\n".join(cpp_vtbl_lines(t["funcs"], m))))
    if any(g.get("clone") for g in m["groups"]):
        w(VTBL_DOC % "Clone" + "template<typename CGlueC>\nstruct CloneVtbl {\n    CGlueC (*clone)(const CGlueC *cont);\n};\n")
    for g in m["groups"]:
        G = g["name"]
        vf = ["    const %sVtbl<%sContainer<CGlueInst, CGlueCtx>> *vtbl_%s;" % (tn, G, tn.lower()) for tn in g["traits"]]
        if g.get("clone"):
            vf.insert(min(g.get("clone_pos", len(vf)), len(vf)), "    const CloneVtbl<%sContainer<CGlueInst, CGlueCtx>> *vtbl_clone;" % G)
        w(GROUP_DOC_CPP % (" + ".join("%s < >" % tn for tn in g["traits"]), G) + "template<typename CGlueInst, typename CGlueCtx>\nstruct %s {\n%s\n    %sContainer<CGlueInst, CGlueCtx> container;\n};\n" % (G, "\n".join(vf), G))
    w(CONT_DOC + "template<typename T, typename C, typename R>\nstruct CGlueObjContainer {\n    T instance;\n    C context;\n    R ret_tmp;\n};\n")
    w(OBJ_DOC + "template<typename T, typename V, typename C, typename R>\nstruct CGlueTraitObj {\n    const V *vtbl;\n    CGlueObjContainer<T, C, R> container;\n};\n")
    for t in m["traits"]:
        T = t["name"]
        w("/**\n * Base CGlue trait object for trait %s.\n */\ntemplate<typename CGlueInst, typename CGlueCtx>\nusing %sBase = CGlueTraitObj<CGlueInst, %sVtbl<CGlueObjContainer<CGlueInst, CGlueCtx, %sRetTmp<CGlueCtx>>>, CGlueCtx, %sRetTmp<CGlueCtx>>;\n" % (T, T, T, T, T))
        w("/**\n * CtxBoxed CGlue trait object for trait %s with context.\n */\ntemplate<typename CGlueT, typename CGlueCtx>\nusing %sBaseCtxBox = %sBase<CBox<CGlueT>, CGlueCtx>;\n" % (T, T, T))
        w("/**\n * Boxed CGlue trait object for trait %s with a [`CArc`](cglue::arc::CArc) reference counted context.\n */\ntemplate<typename CGlueT, typename CGlueC>\nusing %sBaseArcBox = %sBaseCtxBox<CGlueT, CArc<CGlueC>>;\n" % (T, T, T))
        w("/**\n * Opaque Boxed CGlue trait object for trait %s with a [`CArc`](cglue::arc::CArc) reference counted context.\n */\nusing %sArcBox = %sBaseArcBox<void, void>;\n" % (T, T, T))
    if m.get("trailing_ws"):
        w(TRAILING_WS_DOC.rstrip("\n"))
        foreign.append(TRAILING_WS_MARK)
    w("struct UserTail {\n    uint8_t bytes[4];\n};\n")
    foreign.append("struct UserTail {")
    w("extern \"C\" {\n")
    w("void user_free_function(UserTail *tail, uintptr_t n);\n")
    foreign.append("void user_free_function(UserTail *tail, uintptr_t n);")
    if m.get("type_layout"):
        w("extern const TypeLayout *ROOT_LAYOUT;\n")
        foreign.append("extern const TypeLayout *ROOT_LAYOUT;")
    t0 = m["traits"][0]
    w("int32_t create_%s(CArc<void> *lib, MaybeUninit<%sArcBox> *out);\n" % (t0["name"].lower(), t0["name"]))
    foreign.append("int32_t create_%s(" % t0["name"].lower())
    w("} // extern \"C\"\n")
    return "\n".join(out), foreign


def object_types_cpp(model):
    """Instantiations a C++ user can hold, with their C++ spellings. The context is the
    reference-counted one or none at all (`void`: the specialisations the tool generates for it)."""
    m = cpp_model(model)
    out = []
    tmap = {t["name"]: t for t in m["traits"]}
    ctxs = [("CArc_c_void", "CArc<void>")] + ([("NoContext", "void")] if model.get("no_context") else [])
    for t in m["traits"]:
        T = t["name"]
        for cont in t["conts"]:
            for ctx, cspell in ctxs:
                inst = CPP_CONT[cont]
                cn = "CGlueObjContainer<%s, %s, %sRetTmp<%s>>" % (inst, cspell, T, cspell)
                out.append({"kind": "obj", "name": T, "cont": cont, "ctx": ctx, "struct": "%sBase<%s, %s>" % (T, inst, cspell), "container": cn,
                            "vtbls": [{"trait": T, "type": "%sVtbl<%s>" % (T, cn), "field": "vtbl", "funcs": t["funcs"]}], "ret_tmp": ["ret_tmp"] if t.get("rettmp_real") else []})
    for g in m["groups"]:
        G = g["name"]
        for cont in g["conts"]:
            for ctx, cspell in ctxs:
                inst = CPP_CONT[cont]
                cn = "%sContainer<%s, %s>" % (G, inst, cspell)
                vt = [{"trait": tn, "type": "%sVtbl<%s>" % (tn, cn), "field": "vtbl_" + tn.lower(), "funcs": tmap[tn]["funcs"]} for tn in g["traits"]]
                if g.get("clone"):
                    vt.insert(min(g.get("clone_pos", len(vt)), len(vt)), {"trait": "Clone", "type": "CloneVtbl<%s>" % cn, "field": "vtbl_clone", "funcs": [("clone", "ref", [], cn)]})
                out.append({"kind": "group", "name": G, "cont": cont, "ctx": ctx, "struct": "%s<%s, %s>" % (G, inst, cspell), "container": cn, "vtbls": vt, "ret_tmp": []})
    return out
