"""hdrgen: generator of cbindgen-shaped C headers for seeded API models (DESIGN.md §3/C18).

No cbindgen exists offline, so the input headers of cglue-bindgen are produced here. The shapes are
taken from the regular expressions in cglue-bindgen/src/codegen/c.rs (the tool's own definition of
"supported shape") and from the structures visible in examples/pregen-headers/bindings.h. This is a
model of an external tool; its fidelity is the main assumption of the C18 check.

Everything is a pure function of the model seed (own splitmix/xorshift PRNG, no `random`).
"""

MASK = (1 << 64) - 1


class Rng:
    def __init__(self, seed):
        self.s = (seed * 0x9E3779B97F4A7C15 + 0x1234567) & MASK
        if self.s == 0:
            self.s = 1

    def next(self):
        x = self.s
        x ^= (x << 13) & MASK
        x ^= x >> 7
        x ^= (x << 17) & MASK
        self.s = x
        return (x * 0x2545F4914F6CDD1D) & MASK

    def below(self, n):
        return self.next() % n

    def chance(self, a, b):
        return self.below(b) < a

    def pick(self, xs):
        return xs[self.below(len(xs))]


ZST_DOC = """/**
 * Type definition for temporary return value wrapping storage.
 *
 * The trait does not use return wrapping, thus is a typedef to `PhantomData`.
 *
 * Note that `cbindgen` will generate wrong structures for this type. It is important
 * to go inside the generated headers and fix it - all RetTmp structures without a
 * body should be completely deleted, both as types, and as fields in the
 * groups/objects. If C++11 templates are generated, it is important to define a
 * custom type for CGlueTraitObj that does not have `ret_tmp` defined, and change all
 * type aliases of this trait to use that particular structure.
 */
"""

VTBL_DOC = """/**
 * CGlue vtable for trait %s.
 *
 * This virtual function table contains ABI-safe interface for the given trait.
 */
"""

OBJ_DOC = """/**
 * Simple CGlue trait object.
 *
 * This is the simplest form of CGlue object, represented by a container and vtable for a single
 * trait.
 *
 * Container merely is a this pointer with some optional temporary return reference context.
 */
"""

CONT_DOC = """/**
 * Simple CGlue trait object container.
 *
 * This is the simplest form of container, represented by an instance, clone context, and
 * temporary return context.
 */
"""

GROUP_DOC = """/**
 * Trait group %s.
 *
 * Optional traits are not implemented here, however. There are numerous conversion
 * functions available for safely retrieving a concrete collection of traits.
 */
"""

CONTAINERS = {
    # key: (cbindgen name, C field type of `instance`)
    "Box": ("CBox_c_void", "struct CBox_c_void instance;"),
    "Mut": ("____c_void", "void *instance;"),
    "Ref": ("_____c_void", "const void *instance;"),
}

SCALARS = ["uint64_t", "int32_t", "uintptr_t", "uint8_t", "bool"]


def gen_model(seed):
    r = Rng(seed)
    ntraits = 1 + r.below(3)
    user_ctxs = [["MyCtx"], ["MyCtx", "OtherCtx"], [], []][r.below(4)]
    if seed % 3 == 0 and not user_ctxs:
        user_ctxs = ["MyCtx"]
    contexts = ["CArc_c_void"] + user_ctxs
    traits = []
    for ti in range(ntraits):
        name = ["Alpha", "Beta", "Gamma"][ti]
        funcs = []
        for fi in range(1 + r.below(3)):
            kind = r.pick(["ref", "ref", "mut", "own"])
            args = [(r.pick(SCALARS), "a%d" % k) for k in range(r.below(3))]
            ret = r.pick(["void"] + SCALARS)
            funcs.append(("%s_f%d" % (name.lower(), fi), kind, args, ret))
        conts = [c for c in ("Box", "Mut", "Ref") if r.chance(1, 2)] or ["Box"]
        traits.append({"name": name, "funcs": funcs, "conts": conts})
    model = {
        "seed": seed,
        "traits": traits,
        "contexts": contexts,
        "leftover": r.chance(2, 3),
        "generic_objs": r.chance(1, 3),
        "group": r.chance(1, 3),
        "foreign_early": r.chance(1, 2),
        "foreign_names": r.chance(1, 2),
        "guard": r.chance(1, 2),
    }
    return model


def cont_name(cont, ctx, trait):
    return "CGlueObjContainer_%s_____%s_____%sRetTmp_%s" % (CONTAINERS[cont][0], ctx, trait, ctx)


def render(model):
    """Returns (header text, ordered list of foreign declaration markers)."""
    out = []
    w = out.append
    foreign = []
    if model["guard"]:
        w("#ifndef BINDINGS_H\n#define BINDINGS_H\n")
    w("#include <stdarg.h>\n#include <stdbool.h>\n#include <stdint.h>\n#include <stdlib.h>\n")
    if model["foreign_early"]:
        w("/**\n * A user structure unrelated to CGlue.\n */\ntypedef struct UserPoint {\n    int32_t x;\n    int32_t y;\n} UserPoint;\n")
        foreign.append("typedef struct UserPoint {")
    w("/**\n * FFI-safe box\n */\ntypedef struct CBox_c_void {\n    void *instance;\n    void (*drop_fn)(void*);\n} CBox_c_void;\n")
    w("/**\n * FFI-Safe Arc\n */\ntypedef struct CArc_c_void {\n    const void *instance;\n    const void *(*clone_fn)(const void*);\n    void (*drop_fn)(const void*);\n} CArc_c_void;\n")
    for c in model["contexts"][1:]:
        w("/**\n * A user context type.\n */\ntypedef struct %s {\n    uint64_t tag;\n    void *handle;\n} %s;\n" % (c, c))
    if model["foreign_names"]:
        # user declarations whose names resemble CGlue patterns
        w("/**\n * Not a CGlue vtable, despite the name.\n */\ntypedef struct UserVtblLike {\n    void (*callback)(void *ctx);\n    uintptr_t RetTmp_count;\n} UserVtblLike;\n")
        foreign.append("typedef struct UserVtblLike {")
    for t in model["traits"]:
        T = t["name"]
        for ctx in model["contexts"]:
            w("\n" + ZST_DOC + "typedef struct %sRetTmp_%s %sRetTmp_%s;\n" % (T, ctx, T, ctx))
        for cont in t["conts"]:
            for ctx in model["contexts"]:
                cn = cont_name(cont, ctx, T)
                w(CONT_DOC + "typedef struct %s {\n    %s\n    %s context;\n    struct %sRetTmp_%s ret_tmp;\n} %s;\n" % (
                    cn, CONTAINERS[cont][1], ("struct " + ctx) if ctx != "CArc_c_void" else "struct CArc_c_void", T, ctx, cn))
                vn = "%sVtbl_%s" % (T, cn)
                lines = []
                for (fname, kind, args, ret) in t["funcs"]:
                    if kind == "own" and cont != "Box":
                        continue
                    recv = {"ref": "const struct %s *cont" % cn, "mut": "struct %s *cont" % cn, "own": "struct %s cont" % cn}[kind]
                    arglist = ", ".join([recv] + ["%s %s" % a for a in args])
                    lines.append("    %s (*%s)(%s);" % (ret, fname, arglist))
                if not lines:
                    lines.append("    void (*%s_noop)(const struct %s *cont);" % (T.lower(), cn))
                w(VTBL_DOC % T + "typedef struct %s {\n%s\n} %s;\n" % (vn, "\n".join(lines), vn))
                on = "CGlueTraitObj_%s_____%s______________%s_____%sRetTmp_%s" % (CONTAINERS[cont][0], vn, ctx, T, ctx)
                w(OBJ_DOC + "typedef struct %s {\n    const struct %s *vtbl;\n    struct %s container;\n} %s;\n" % (on, vn, cn, on))
                w("/**\n * Base CGlue trait object for trait %s.\n */\ntypedef struct %s %sBase_%s_____%s;\n" % (T, on, T, CONTAINERS[cont][0], ctx))
    if model.get("generic_objs"):
        # the same single-trait object also exposed generically over the context (cbindgen keeps a
        # `Context`-parametrised copy next to the concrete ones); cbindgen's mangling puts
        # `Context__` before the next argument and 11 underscores in the object name
        t = model["traits"][0]
        T = t["name"]
        cont = t["conts"][0]
        w("\n" + ZST_DOC + "typedef struct %sRetTmp_Context %sRetTmp_Context;\n" % (T, T))
        cn = "CGlueObjContainer_%s_____Context__%sRetTmp_Context" % (CONTAINERS[cont][0], T)
        w(CONT_DOC + "typedef struct %s {\n    %s\n    Context context;\n    struct %sRetTmp_Context ret_tmp;\n} %s;\n" % (cn, CONTAINERS[cont][1], T, cn))
        vn = "%sVtbl_%s" % (T, cn)
        lines = []
        for (fname, kind, args, ret) in t["funcs"]:
            if kind == "own" and cont != "Box":
                continue
            recv = {"ref": "const struct %s *cont" % cn, "mut": "struct %s *cont" % cn, "own": "struct %s cont" % cn}[kind]
            lines.append("    %s (*%s)(%s);" % (ret, fname, ", ".join([recv] + ["%s %s" % a for a in args])))
        if not lines:
            lines.append("    void (*%s_noop)(const struct %s *cont);" % (T.lower(), cn))
        w(VTBL_DOC % T + "typedef struct %s {\n%s\n} %s;\n" % (vn, "\n".join(lines), vn))
        on = "CGlueTraitObj_%s_____%s___________Context__%sRetTmp_Context" % (CONTAINERS[cont][0], vn, T)
        w(OBJ_DOC + "typedef struct %s {\n    const struct %s *vtbl;\n    struct %s container;\n} %s;\n\n" % (on, vn, cn, on))
    if model["leftover"]:
        # a structure cbindgen left generic over the context
        w("/**\n * Holder that is generic over the context.\n */\ntypedef struct Holder_____c_void__Context {\n    void *instance;\n    Context context;\n    uint32_t flags;\n} Holder_____c_void__Context;\n\n")
    w("typedef struct UserTail {\n    uint8_t bytes[4];\n} UserTail;\n")
    foreign.append("typedef struct UserTail {")
    w("#ifdef __cplusplus\nextern \"C\" {\n#endif // __cplusplus\n")
    w("void user_free_function(struct UserTail *tail, uintptr_t n);\n")
    foreign.append("void user_free_function(struct UserTail *tail, uintptr_t n);")
    t0 = model["traits"][0]
    cn0 = cont_name(t0["conts"][0], "CArc_c_void", t0["name"])
    w("int32_t create_%s(struct CArc_c_void *lib, struct %s *out);\n" % (t0["name"].lower(), cn0))
    foreign.append("int32_t create_%s(" % t0["name"].lower())
    w("#ifdef __cplusplus\n} // extern \"C\"\n#endif // __cplusplus\n")
    if model["guard"]:
        w("#endif /* BINDINGS_H */\n")
    return "\n".join(out), foreign


def describe(model):
    return {
        "seed": model["seed"],
        "traits": [{"name": t["name"], "containers": t["conts"], "functions": [(f[0], f[1], len(f[2]), f[3]) for f in t["funcs"]]} for t in model["traits"]],
        "contexts": model["contexts"],
        "context_generic_leftover": model["leftover"],
        "context_generic_trait_object": model.get("generic_objs", False),
        "foreign_early": model["foreign_early"],
        "foreign_cglue_like_names": model["foreign_names"],
        "include_guard": model["guard"],
    }


if __name__ == "__main__":
    import sys
    m = gen_model(int(sys.argv[1]) if len(sys.argv) > 1 else 1)
    print(render(m)[0])
