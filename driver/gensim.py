"""gensim: simulation of the cglue-bindgen post-processor (C18) and of the macro expander (C04a)
as processes whose environment the run owns: the process hash seed (LD_PRELOAD getrandom shim),
the cbindgen subprocess (fake executable first on PATH), the command line.
"""
import hashlib
import json
import os
import re
import shutil
import subprocess
import tempfile
import time
from concurrent.futures import ThreadPoolExecutor

import hdrgen
from driver_main import CARGO_ENV, REPO, REPLAYS, SIM, WORKERS, HarnessError, load_known, known_match, log

SHIM_SRC = os.path.join(SIM, "shim", "getrandom.c")
SHIM_SO = os.path.join(SIM, "target", "shim", "libsimrand.so")
FAKEBIN = os.path.join(SIM, "shim", "fakebin")
BINDGEN_TARGET = os.path.join(SIM, "target", "bindgen")
BINDGEN = os.path.join(BINDGEN_TARGET, "release", "cglue-bindgen")

_built = {}


def build_shim():
    if _built.get("shim"):
        return
    os.makedirs(os.path.dirname(SHIM_SO), exist_ok=True)
    p = subprocess.run(["cc", "-shared", "-fPIC", "-O1", "-o", SHIM_SO, SHIM_SRC], stdout=subprocess.PIPE, stderr=subprocess.STDOUT, text=True)
    if p.returncode != 0:
        raise HarnessError("cannot build the getrandom shim: " + p.stdout)
    _built["shim"] = True


def build_bindgen():
    if _built.get("bindgen"):
        return
    t0 = time.time()
    p = subprocess.run(["cargo", "build", "--offline", "-q", "-p", "cglue-bindgen", "--release", "--target-dir", BINDGEN_TARGET],
                       cwd=REPO, env=CARGO_ENV, stdout=subprocess.PIPE, stderr=subprocess.STDOUT, text=True)
    if p.returncode != 0:
        raise HarnessError("cglue-bindgen does not build:\n" + "\n".join(p.stdout.splitlines()[-30:]))
    _built["bindgen"] = True
    log("# built cglue-bindgen (release) in %.1fs" % (time.time() - t0))


CONFIGS = [
    None,
    {"default_container": "Box", "default_context": "Arc"},
    {"default_container": "Mut"},
    {"function_prefix": "pfx"},
    {"default_container": "Box", "default_context": "Arc", "function_prefix": "api"},
]

# argv after `--`: where the output pair sits and which spelling it uses
ARGV_SHAPES = [
    ["--config", "cb.toml", "--crate", "foo", "-o", "{out}", "-l", "C"],
    ["-o", "{out}", "--config", "cb.toml", "--crate", "foo", "-l", "C"],
    ["--config", "cb.toml", "--crate", "foo", "-l", "C", "--output", "{out}"],
    ["--crate", "foo", "--output", "{out}", "-v", "--lang", "C", "--config", "cb.toml"],
    # the output given twice: both pairs are output paths (neither reaches cbindgen, in whole or in
    # part); the processed header lands in one of them
    ["--config", "cb.toml", "-o", "{out}", "--crate", "foo", "--output", "{out2}", "-l", "C"],
    ["-o", "{out}", "-o", "{out2}", "--crate", "foo", "-l", "C"],
    # no output path: the processed header goes to standard output
    ["--config", "cb.toml", "--crate", "foo", "-l", "C"],
]


TOOL_TIMEOUT_S = 60


def run_tool(workdir, header_path, config, argv_shape, hash_seed, fail=False, tag="", keep_existing=False, nightly=False):
    out_path = os.path.join(workdir, "out%s-%d.h" % (tag, hash_seed))
    argv_log = os.path.join(workdir, "argv%s-%d.txt" % (tag, hash_seed))
    for pth in (out_path, argv_log):
        if os.path.exists(pth) and not (keep_existing and pth == out_path):
            os.remove(pth)
    pre = []
    if config is not None:
        cpath = os.path.join(workdir, "cglue%s.toml" % tag)
        with open(cpath, "w") as f:
            for k in sorted(config):
                f.write('%s = "%s"\n' % (k, config[k]))
        pre = ["-c", cpath]
    if nightly:
        # `+nightly` before `--` configures the tool: cbindgen is started through `rustup run nightly`
        pre = ["+nightly"] + pre
    out2_path = os.path.join(workdir, "second%s-%d.h" % (tag, hash_seed))
    if os.path.exists(out2_path):
        os.remove(out2_path)
    post = [a.replace("{out}", out_path).replace("{out2}", out2_path) for a in ARGV_SHAPES[argv_shape]]
    env = dict(os.environ)
    env.update({
        "PATH": FAKEBIN + os.pathsep + env.get("PATH", ""),
        "LD_PRELOAD": SHIM_SO,
        "SIMRAND_SEED": str(hash_seed),
        "FAKE_CBINDGEN_HEADER": header_path,
        "FAKE_CBINDGEN_ARGV_LOG": argv_log,
        "FAKE_CBINDGEN_EXIT": "1" if fail else "0",
    })
    # (a tool that never finishes is a tool that rejects the header: bounded wait, whole process group killed)
    proc = subprocess.Popen([BINDGEN] + pre + ["--"] + post, cwd=workdir, env=env, stdout=subprocess.PIPE, stderr=subprocess.PIPE, text=True, errors="replace", start_new_session=True)
    try:
        so, se = proc.communicate(timeout=TOOL_TIMEOUT_S)
        p = subprocess.CompletedProcess(proc.args, proc.returncode, so, se)
    except subprocess.TimeoutExpired:
        try:
            os.killpg(proc.pid, 9)
        except OSError:
            pass
        try:
            proc.communicate(timeout=10)
        except Exception:
            pass
        p = subprocess.CompletedProcess(proc.args, -9, "", "the tool did not terminate within %d s (input header: %d bytes)" % (TOOL_TIMEOUT_S, os.path.getsize(header_path)))
    seen = []
    if os.path.exists(argv_log):
        with open(argv_log) as f:
            seen = f.read().split("\n")[:-1]
    output = None
    to_stdout = "{out}" not in " ".join(ARGV_SHAPES[argv_shape])
    if to_stdout and p.returncode == 0:
        with open(out_path, "w") as f:
            f.write(p.stdout)
        p.stdout = ""
    if nightly and seen[:1] == ["via-rustup:nightly"]:
        seen = seen[1:]
    elif nightly:
        seen = ["<cbindgen was not started through `rustup run nightly`>"] + seen
    if not os.path.exists(out_path) and os.path.exists(out2_path):
        # "last one wins" would be as good a reading of a repeated output argument as "first one wins"
        out_path = out2_path
    if os.path.exists(out_path):
        with open(out_path, "rb") as f:
            output = f.read()
    expect_argv = []
    skip = False
    for a in post:
        if skip:
            skip = False
            continue
        if a in ("-o", "--output"):
            skip = True
            continue
        expect_argv.append(a)
    return {"rc": p.returncode, "stdout": p.stdout, "stderr": p.stderr[-500:], "argv_seen": seen, "argv_expected": expect_argv, "output": output, "out_path": out_path}


def foreign_order(text, markers):
    pos = []
    for m in markers:
        i = text.find(m)
        pos.append(i)
    return pos


def eval_case(case, keep_dir=None):
    """One evaluation: a (header model, config, argv shape) under several hash seeds.
    Returns dict(violation=None|{class, site, msg}, stats)."""
    model = case["model"] if "model" in case else hdrgen.gen_model(case["model_seed"])
    cpp = case.get("lang") == "cpp"
    header, foreign = hdrgen.render_cpp(model) if cpp else hdrgen.render(model)
    config = CONFIGS[case["config"]]
    if cpp and config is not None and "default_container" in config and "default_context" not in config:
        config = None  # see _eval_wrap_case_cpp: this configuration names a type the C++ header model does not declare
    d = keep_dir or tempfile.mkdtemp(prefix="cglue-verif-gensim-")
    stats = {"tool_runs": 0, "fault.hash_seed": 0, "fault.subprocess_fail": 0}
    try:
        hp = os.path.join(d, "input.hpp" if cpp else "input.h")
        with open(hp, "w") as f:
            f.write(header)
        outs = {}
        first = None
        for hs in case["hash_seeds"]:
            r = run_tool(d, hp, config, case["argv"], hs, nightly=bool(case.get("nightly")))
            stats["tool_runs"] += 1
            stats["fault.via_rustup_nightly"] = stats.get("fault.via_rustup_nightly", 0) + (1 if case.get("nightly") else 0)
            stats["fault.hash_seed"] += 1
            if first is None:
                first = r
            if r["rc"] != 0 or r["output"] is None:
                return {"violation": {"class": "bindgen.rejects_supported_header", "site": "run", "msg": "cglue-bindgen exit %s on a header of the supported shape: %s" % (r["rc"], r["stderr"].replace("\n", " | "))}, "stats": stats}
            outs[hs] = r["output"]
            # argv clause
            if r["argv_seen"] != r["argv_expected"]:
                return {"violation": {"class": "bindgen.argv", "site": "argv shape %d" % case["argv"], "msg": "cbindgen received %r, expected %r (everything after `--` except the output pair, in order)" % (r["argv_seen"], r["argv_expected"])}, "stats": stats}
            if r["stdout"].strip():
                return {"violation": {"class": "bindgen.output_path", "site": "stdout", "msg": "the processed header was printed although an output path was given"}, "stats": stats}
        digests = {hs: hashlib.sha256(o).hexdigest() for hs, o in outs.items()}
        if len(set(digests.values())) > 1:
            groups = {}
            for hs, dg in sorted(digests.items()):
                groups.setdefault(dg[:12], []).append(hs)
            site = "contexts>=2" if len(model["contexts"]) >= 2 else "single context"
            return {"violation": {"class": "bindgen.nondeterministic_output", "site": site, "msg": "same header and configuration, different process hash seeds, different output: %s" % json.dumps(groups, sort_keys=True)}, "stats": stats}
        text = outs[case["hash_seeds"][0]].decode("utf-8", "replace")
        if cpp:
            # compile oracle, C++11: the header alone, then every instantiation a user can hold with
            # the address of each of its member-function wrappers taken (templates are only checked
            # when instantiated)
            stats["cpp_headers"] = 1
            out_hpp = first["out_path"] + "pp"
            shutil.copyfile(first["out_path"], out_hpp)
            import wrapsim
            types, table = wrapsim.wrapper_table_cpp(model)
            lines = ['#include <utility>', '#include "%s"' % out_hpp]
            for k, (o, t) in enumerate(zip(types, table)):
                lines.append("typedef %s Obj%d;" % (o["struct"], k))
                lines.append("static void use_%d() { Obj%d *o = new Obj%d(); delete o;" % (k, k, k))
                for n in sorted(set(t["names"].values())):
                    lines.append("    { auto p = &Obj%d::%s; (void)p; }" % (k, n))
                lines.append("}")
            lines.append("int main() { return 0; }")
            cp = os.path.join(d, "check.cpp")
            with open(cp, "w") as f:
                f.write("\n".join(lines) + "\n")
            cc = subprocess.run(["c++", "-std=c++11", "-fsyntax-only", "-w", cp], stdout=subprocess.PIPE, stderr=subprocess.STDOUT, text=True)
            stats["cc_runs"] = 1
            if cc.returncode != 0:
                errs = [l for l in cc.stdout.splitlines() if "error" in l]
                return {"violation": {"class": "bindgen.cpp_compile", "site": "c++ -std=c++11", "msg": "the processed header (with its templates instantiated) is rejected by the C++ compiler: " + " | ".join(e[-220:] for e in errs[:3])}, "stats": stats}
        # compile oracle
        cp = os.path.join(d, "check.c")
        with open(cp, "w") as f:
            f.write('#include <string.h>\n#include "%s"\nint main(void) { return 0; }\n' % first["out_path"])
        cc = subprocess.run(["cc", "-std=c99", "-fsyntax-only", "-Wno-unused", cp], stdout=subprocess.PIPE, stderr=subprocess.STDOUT, text=True) if not cpp else None
        stats["cc_runs"] = stats.get("cc_runs", 0) + (0 if cpp else 1)
        if cc is not None and cc.returncode != 0:
            return {"violation": {"class": "bindgen.c_compile", "site": "cc -std=c99", "msg": "the processed header is rejected by the C compiler: " + " | ".join(cc.stdout.splitlines()[:4])}, "stats": stats}
        # the C-visible layout of every CGlue container and object is the one the model implies
        # (instance, context, temporaries that really exist; no zero-sized leftovers, nothing cut)
        lp = os.path.join(d, "layout.c")
        with open(lp, "w") as f:
            f.write('#include <string.h>\n#include "%s"\n%s\nint main(void) { return 0; }\n' % (first["out_path"], hdrgen.layout_asserts(model)))
        cc = subprocess.run(["cc", "-std=c99", "-fsyntax-only", "-Wno-unused", lp], stdout=subprocess.PIPE, stderr=subprocess.STDOUT, text=True) if not cpp else None
        stats["cc_runs"] += 0 if cpp else 1
        if cc is not None and cc.returncode != 0:
            errs = [l for l in cc.stdout.splitlines() if "error" in l]
            return {"violation": {"class": "bindgen.c_layout", "site": "container/object layout", "msg": "a CGlue structure of the processed header does not have the fields the input describes: " + " | ".join(errs[:3])}, "stats": stats}
        # foreign declarations preserved, unmodified, in order
        before = foreign_order(header, foreign)
        after = foreign_order(text, foreign)
        if any(p < 0 for p in after):
            missing = [m for m, p in zip(foreign, after) if p < 0]
            return {"violation": {"class": "bindgen.foreign_decl", "site": "missing", "msg": "declarations that do not belong to CGlue constructs disappeared or were modified: %r" % missing}, "stats": stats}
        if sorted(range(len(after)), key=lambda i: after[i]) != sorted(range(len(before)), key=lambda i: before[i]):
            return {"violation": {"class": "bindgen.foreign_decl", "site": "order", "msg": "foreign declarations were reordered"}, "stats": stats}
        # full text of foreign structs unchanged
        for m in foreign:
            if m.startswith("typedef struct"):
                s0 = header.find(m)
                e0 = header.find("}", s0)
                if header[s0:e0] not in text:
                    return {"violation": {"class": "bindgen.foreign_decl", "site": "body", "msg": "body of %r was altered" % m}, "stats": stats}
        # history of runs into the same output path: regenerate over an existing, longer header
        if case.get("rewrite"):
            hs0 = case["hash_seeds"][0]
            longer = {"function_prefix": "a_rather_long_prefix_for_every_wrapper"}
            r1 = run_tool(d, hp, longer, case["argv"], hs0, tag="w")
            r2 = run_tool(d, hp, config, case["argv"], hs0, tag="w", keep_existing=True)
            stats["tool_runs"] += 2
            stats["fault.rewrite_existing_output"] = stats.get("fault.rewrite_existing_output", 0) + 1
            if r1["rc"] == 0 and r2["rc"] == 0 and r2["output"] != outs[hs0]:
                return {"violation": {"class": "bindgen.output_path", "site": "rewrite", "msg": "regenerating into an existing output file gives %d bytes, a fresh path gives %d bytes for the same input and configuration (old content left behind?)" % (len(r2["output"] or b""), len(outs[hs0]))}, "stats": stats}
        # probe (not an oracle): what the tool does when cbindgen fails
        if case.get("probe_fail"):
            r = run_tool(d, hp, config, case["argv"], case["hash_seeds"][0], fail=True, tag="f")
            stats["tool_runs"] += 1
            stats["fault.subprocess_fail"] += 1
            stats["probe.tool_nonzero_when_cbindgen_fails"] = 1 if r["rc"] != 0 else 0
        return {"violation": None, "stats": stats, "digest": list(digests.values())[0]}
    finally:
        if keep_dir is None:
            shutil.rmtree(d, ignore_errors=True)


def case_for(seed, i, tier):
    r = hdrgen.Rng(seed * 1000003 + i)
    k = 6 if tier == "quick" else 12
    base = r.below(1 << 20)
    return {
        "index": i,
        "model_seed": seed * 7919 + i,
        "config": r.below(len(CONFIGS)),
        "argv": r.below(len(ARGV_SHAPES)),
        "hash_seeds": [base + j * 17 + 1 for j in range(k)],
        "probe_fail": r.chance(1, 10),
        "rewrite": r.chance(1, 4),
        "lang": "cpp" if i % 4 == 3 else "c",
        "nightly": r.chance(1, 5),
    }


def model_candidates(m):
    cands = []
    for gi in range(len(m.get("groups", []))):
        cands.append(dict(m, groups=m["groups"][:gi] + m["groups"][gi + 1:]))
    for ti in range(len(m["traits"])):
        if len(m["traits"]) > 1:
            gone = m["traits"][ti]["name"]
            groups = [dict(g, traits=[x for x in g["traits"] if x != gone]) for g in m.get("groups", [])]
            cands.append(dict(m, traits=m["traits"][:ti] + m["traits"][ti + 1:], groups=[g for g in groups if g["traits"]]))
    for gi, g in enumerate(m.get("groups", [])):
        for key in ("traits", "conts", "ctxs"):
            for xi in range(len(g[key])):
                if len(g[key]) > 1:
                    ng = dict(g, **{key: g[key][:xi] + g[key][xi + 1:]})
                    cands.append(dict(m, groups=m["groups"][:gi] + [ng] + m["groups"][gi + 1:]))
        if g.get("clone"):
            cands.append(dict(m, groups=m["groups"][:gi] + [dict(g, clone=False)] + m["groups"][gi + 1:]))
    for ti, t in enumerate(m["traits"]):
        for ci in range(len(t["conts"])):
            if len(t["conts"]) > 1:
                nt = dict(t, conts=t["conts"][:ci] + t["conts"][ci + 1:])
                cands.append(dict(m, traits=m["traits"][:ti] + [nt] + m["traits"][ti + 1:]))
        for fi in range(len(t["funcs"])):
            if len(t["funcs"]) > 1:
                nt = dict(t, funcs=t["funcs"][:fi] + t["funcs"][fi + 1:])
                cands.append(dict(m, traits=m["traits"][:ti] + [nt] + m["traits"][ti + 1:]))
        for fi, f in enumerate(t["funcs"]):
            for ai in range(len(f[2])):
                nf = (f[0], f[1], f[2][:ai] + f[2][ai + 1:], f[3])
                nt = dict(t, funcs=t["funcs"][:fi] + [nf] + t["funcs"][fi + 1:])
                cands.append(dict(m, traits=m["traits"][:ti] + [nt] + m["traits"][ti + 1:]))
        if t.get("rettmp_real"):
            cands.append(dict(m, traits=m["traits"][:ti] + [dict(t, rettmp_real=False)] + m["traits"][ti + 1:]))
    for ci in range(1, len(m["contexts"])):
        gone = m["contexts"][ci]
        if not any(gone in g["ctxs"] for g in m.get("groups", [])):
            cands.append(dict(m, contexts=m["contexts"][:ci] + m["contexts"][ci + 1:]))
    for flag in ("leftover", "generic_objs", "foreign_early", "foreign_names", "guard", "no_context", "wrap_long", "type_layout"):
        if m.get(flag):
            cands.append(dict(m, **{flag: False}))
    return cands


def minimise_case(case, cls):
    """Shrinks the header model (fewer traits, containers, contexts, no leftover, no config) while
    the same violation class persists."""
    model = hdrgen.gen_model(case["model_seed"])
    cur = dict(case, model=model)
    cur.pop("model_seed", None)
    tries = 0

    def fails(c):
        nonlocal tries
        tries += 1
        r = eval_case(c)
        return r["violation"] is not None and r["violation"]["class"] == cls

    changed = True
    while changed:
        changed = False
        m = cur["model"]
        cands = model_candidates(m)
        for c in cands:
            cc = dict(cur, model=c)
            if fails(cc):
                cur = cc
                changed = True
                break
        if not changed and cur["config"] != 0:
            cc = dict(cur, config=0)
            if fails(cc):
                cur = cc
                changed = True
        if not changed and len(cur["hash_seeds"]) > 2:
            # keep two hash seeds that still disagree
            hs = cur["hash_seeds"]
            for a in range(len(hs)):
                for b in range(a + 1, len(hs)):
                    cc = dict(cur, hash_seeds=[hs[a], hs[b]])
                    if fails(cc):
                        cur = cc
                        changed = True
                        break
                if changed:
                    break
    return cur, tries


def phase_bindgen(prop, tier, seed, report):
    build_shim()
    build_bindgen()
    n = 400 if tier == "quick" else 20000
    t0 = time.time()
    cases = [case_for(seed, i, tier) for i in range(n)]
    with ThreadPoolExecutor(max_workers=WORKERS) as ex:
        results = list(ex.map(eval_case, cases))
    wall = time.time() - t0
    stats = {}
    digests = set()
    viol = []
    shapes = set()
    for c, r in zip(cases, results):
        for k, v in r["stats"].items():
            stats[k] = stats.get(k, 0) + v
        if r.get("digest"):
            digests.add(r["digest"])
        m = hdrgen.gen_model(c["model_seed"])
        shapes.add((len(m["traits"]), len(m["contexts"]), m["leftover"], c["config"], c["argv"]))
        if r["violation"]:
            viol.append((c, r["violation"]))
    report["evaluations"] += n
    report["distinct_nontrivial"] += len(digests) + len(set((c["model_seed"]) for c, _ in viol))
    report["jobs"].append({
        "engine": "gensim.bindgen", "binary": "cglue-bindgen (release, built from /repo)", "runs": n, "wall_s": round(wall, 2),
        "runs_per_hour": int(n / wall * 3600) if wall > 0 else 0,
        "tool_processes": stats.get("tool_runs", 0), "cc_syntax_checks": stats.get("cc_runs", 0), "cpp_mode_runs": stats.get("cpp_headers", 0),
        "distinct_outputs": len(digests), "distinct_model_shapes (traits, contexts, leftover, config, argv)": len(shapes),
        "faults_fired": {"hash_seed": stats.get("fault.hash_seed", 0), "subprocess_fail": stats.get("fault.subprocess_fail", 0), "rewrite_existing_output": stats.get("fault.rewrite_existing_output", 0), "cbindgen_started_through_rustup_nightly": stats.get("fault.via_rustup_nightly", 0)},
        "probes": {"tool_nonzero_when_cbindgen_fails": stats.get("probe.tool_nonzero_when_cbindgen_fails", 0)},
    })
    report["samples"] += [{"engine": "gensim.bindgen", "case": {k: v for k, v in cases[i].items()}, "model": hdrgen.describe(hdrgen.gen_model(cases[i]["model_seed"]))} for i in (0, n // 2)]
    known = load_known()
    out = []
    seen = set()
    for c, v in viol:
        key = (v["class"], v["site"])
        if key in seen:
            continue
        seen.add(key)
        e = known_match(known, prop, v["class"], v["site"])
        if e:
            report["known_findings"].append({"class": v["class"], "site": v["site"]})
            log("KNOWN-FINDING: property=%s %s at %s (%s)" % (prop, v["class"], v["site"], e.get("what", "")))
            continue
        mini, tries = minimise_case(c, v["class"])
        final = eval_case(mini)
        fv = final["violation"] or v
        os.makedirs(os.path.join(REPLAYS, prop), exist_ok=True)
        path = os.path.join(REPLAYS, prop, "bindgen-seed%d-case%d.json" % (seed, c["index"]))
        doc = {"kind": "bindgen", "property": prop, "tier": tier, "seed": seed, "case": {k: v2 for k, v2 in mini.items()},
               "violation": fv, "minimiser_executions": tries, "original_model": hdrgen.describe(hdrgen.gen_model(c["model_seed"])),
               "reproduced_in_fresh_process": final["violation"] is not None}
        with open(path, "w") as f:
            json.dump(doc, f, indent=1, sort_keys=True)
            f.write("\n")
        out.append({"replay": path, "class": fv["class"], "msg": fv["msg"]})
    return out


def replay_bindgen(prop, doc, path):
    build_shim()
    build_bindgen()
    r = eval_case(doc["case"])
    if r["violation"]:
        known = load_known()
        if known_match(known, prop, r["violation"]["class"], r["violation"]["site"]):
            log("KNOWN-FINDING: property=%s %s at %s" % (prop, r["violation"]["class"], r["violation"]["site"]))
            return 0
        log("VIOLATION property=%s replay=%s" % (prop, path))
        log("#   class=%s site=%s" % (r["violation"]["class"], r["violation"]["site"]))
        log("#   %s" % r["violation"]["msg"])
        return 1
    log("# replay did not fail: the recorded violation (%s) does not occur on this tree" % doc["violation"]["class"])
    return 0


# --------------------------------------------------------------------------------------------
# C17: a C program using the generated wrappers (wrapsim)
# --------------------------------------------------------------------------------------------

def wrap_case_for(seed, i, tier):
    r = hdrgen.Rng(seed * 7368787 + i)
    return {
        "index": i,
        "model_seed": seed * 104729 + i,
        "config": r.below(len(CONFIGS)),
        "hash_seed": 1 + r.below(1 << 20),
        "plan_seeds": [r.below(1 << 30) for _ in range(3 if tier == "quick" else 6)],
        # the first program of every case runs under ASan+UBSan in the thorough tier, of every tenth case in the quick tier
        "sanitize": tier != "quick" or i % 10 == 0,
        "lang": "cpp" if i % 3 == 2 else "c",
    }


def eval_wrap_case(case, keep_dir=None):
    """One evaluation: the real tool on one header model under one hash seed, then one C program
    per plan. Returns dict(violation, findings, stats)."""
    import wrapsim
    model = case["model"] if "model" in case else hdrgen.gen_model(case["model_seed"])
    cpp = case.get("lang") == "cpp"
    header, _ = hdrgen.render_cpp(model) if cpp else hdrgen.render(model)
    config = CONFIGS[case["config"]]
    d = keep_dir or tempfile.mkdtemp(prefix="cglue-verif-wrapsim-")
    stats = {"tool_runs": 0, "programs": 0, "slot_calls": 0, "fault.hash_seed": 0}
    findings = []
    try:
        if cpp:
            return _eval_wrap_case_cpp(case, model, header, config, d, stats)
        hp = os.path.join(d, "input.h")
        with open(hp, "w") as f:
            f.write(header)
        r = run_tool(d, hp, config, 0, case["hash_seed"])
        stats["tool_runs"] += 1
        stats["fault.hash_seed"] += 1
        if r["rc"] != 0 or r["output"] is None:
            # no processed header, no wrappers: every entry of this header is without one
            return {"violation": {"class": "wrap.no_header", "site": "tool", "msg": "the post-processor produced no header for a header of the supported shape (exit %s): %s" % (r["rc"], r["stderr"].replace("\n", " | ")[:300])}, "findings": [], "stats": stats}
        text = r["output"].decode("utf-8", "replace")
        nv = wrapsim.check_names(d, model, config, r["out_path"])
        if nv:
            return {"violation": nv, "findings": [], "stats": stats, "plan_index": None}
        for m in wrapsim.entries_without_wrapper(model, config, text):
            same = [o for o in hdrgen.object_types(model) if o["kind"] == m["kind"] and o["name"] == m["name"]][0]
            shared = sum(1 for v in same["vtbls"] for f in v["funcs"] if f[0] == m["entry"]) > 1
            site = "group traits sharing a method name" if (m["kind"] == "group" and shared) else "%s %s" % (m["kind"], m["name"])
            findings.append({"class": "wrap.no_wrapper", "site": site, "msg": "no wrapper of the processed header invokes entry `%s` of `%s` of %s %s" % (m["entry"], m["field"], m["kind"], m["name"])})
        plans = case.get("plans") or [wrapsim.gen_plan(model, ps) for ps in case["plan_seeds"]]
        logs = hashlib.sha256()
        hd = hashlib.sha256(r["output"]).hexdigest()
        progs = []
        for pi, plan in enumerate(plans):
            san = bool(case.get("sanitize")) and pi == 0
            x = wrapsim.run_driver(d, model, config, plan, r["out_path"], tag=str(pi), sanitize=san)
            stats["programs"] += 1
            stats["programs_sanitized"] = stats.get("programs_sanitized", 0) + (1 if san else 0)
            stats["slot_calls"] += x.get("slots", 0)
            logs.update(x.get("log", "").encode())
            if x.get("slots", 0) > 0:
                progs.append(hashlib.sha256((hd + x.get("log", "")).encode()).hexdigest())
            if x["violation"]:
                return {"violation": x["violation"], "findings": findings, "stats": stats, "plan_index": pi}
        return {"violation": None, "findings": findings, "stats": stats, "digest": hd, "log_digest": logs.hexdigest(), "programs": progs}
    finally:
        if keep_dir is None:
            shutil.rmtree(d, ignore_errors=True)


def _eval_wrap_case_cpp(case, model, header, config, d, stats):
    import wrapsim
    findings = []
    if config is not None and "default_container" in config and "default_context" not in config:
        # a default container without a default context makes the tool name `NoContext` as the
        # default context type; how cbindgen declares that type in C++ is not modelled here
        config = None
    hp = os.path.join(d, "input.hpp")
    with open(hp, "w") as f:
        f.write(header)
    r = run_tool(d, hp, config, 0, case["hash_seed"])
    stats["tool_runs"] += 1
    stats["fault.hash_seed"] += 1
    stats["cpp_headers"] = 1
    if r["rc"] != 0 or r["output"] is None:
        return {"violation": {"class": "wrap.no_header", "site": "tool", "msg": "the post-processor produced no C++ header for a header of the supported shape (exit %s): %s" % (r["rc"], r["stderr"].replace("\n", " | ")[:300])}, "findings": [], "stats": stats}
    out_hpp = r["out_path"] + "pp"
    os.replace(r["out_path"], out_hpp)
    types = hdrgen.object_types_cpp(model)
    plans = case.get("plans") or [wrapsim.gen_plan_types(types, ps) for ps in case["plan_seeds"]]
    logs = hashlib.sha256()
    hd = hashlib.sha256(r["output"]).hexdigest()
    progs = []
    for pi, plan in enumerate(plans):
        san = bool(case.get("sanitize")) and pi == 0
        x = wrapsim.run_driver_cpp(d, model, plan, out_hpp, tag=str(pi), sanitize=san)
        if x.get("slots", 0) > 0 and not x["violation"]:
            progs.append(hashlib.sha256((hd + x.get("log", "")).encode()).hexdigest())
        stats["programs"] += 1
        stats["programs_cpp"] = stats.get("programs_cpp", 0) + 1
        stats["programs_sanitized"] = stats.get("programs_sanitized", 0) + (1 if san else 0)
        stats["slot_calls"] += x.get("slots", 0)
        logs.update(x.get("log", "").encode())
        if x["violation"]:
            return {"violation": x["violation"], "findings": findings, "stats": stats, "plan_index": pi}
        if x.get("finding") and not any(f["site"] == x["finding"]["site"] for f in findings):
            findings.append(dict(x["finding"], plan_index=pi))
    return {"violation": None, "findings": findings, "stats": stats, "digest": hd, "log_digest": logs.hexdigest(), "programs": progs}


def _wrap_findings_as_violations(r):
    """Findings that are not in the known-findings file are violations like any other."""
    known = load_known()
    out = []
    for f in r.get("findings", []):
        if not known_match(known, "C17", f["class"], f["site"]):
            out.append(f)
    return out


def _remap_plan(old_types, new_types, plan):
    ident = lambda o: (o["kind"], o["name"], o["cont"], o["ctx"])
    index = {ident(o): i for i, o in enumerate(new_types)}
    steps = []
    objk = {}
    for st in plan["steps"]:
        st = dict(st)
        if st["op"] == "create":
            k = index.get(ident(old_types[st["type"]]))
            if k is None:
                return None
            st["type"] = k
            objk[st["obj"]] = k
        elif st["op"] == "call":
            k = objk.get(st["obj"])
            if k is None:
                return None
            fs = [f for v in new_types[k]["vtbls"] if v["field"] == st["field"] for f in v["funcs"] if f[0] == st["fname"]]
            if not fs or len(fs[0][2]) != len(st["args"]):
                # an argument was removed: drop the same position is not known here, so give up on this candidate
                return None
            if "new_obj" in st:
                objk[st["new_obj"]] = k
        steps.append(st)
    return dict(plan, steps=steps)


def minimise_wrap_case(case, cls, plan_index):
    import wrapsim
    model = case["model"] if "model" in case else hdrgen.gen_model(case["model_seed"])
    types = hdrgen.object_types_cpp(model) if case.get("lang") == "cpp" else hdrgen.object_types(model)
    plans = case.get("plans") or [wrapsim.gen_plan_types(types, ps) for ps in case["plan_seeds"]]
    cur = dict(case, model=model, plans=[plans[plan_index]] if plan_index is not None else plans[:1])
    cur.pop("model_seed", None)
    cur.pop("plan_seeds", None)
    tries = 0

    def fails(c):
        nonlocal tries
        tries += 1
        try:
            r = eval_wrap_case(c)
        except Exception:
            return False
        if r["violation"] is not None and r["violation"]["class"] == cls:
            return True
        return any(f["class"] == cls for f in _wrap_findings_as_violations(r))

    changed = True
    while changed and tries < 150:
        changed = False
        plan = cur["plans"][0]
        steps = plan["steps"]
        for si in range(len(steps) - 1, -1, -1):
            st = steps[si]
            gone = {st["obj"]} if st["op"] == "create" else set()
            if "new_obj" in st:
                gone.add(st["new_obj"])
            keep = []
            for j, s2 in enumerate(steps):
                if j == si or s2.get("obj") in gone:
                    if "new_obj" in s2 and j != si:
                        gone.add(s2["new_obj"])
                    continue
                keep.append(s2)
            if not any(s2["op"] == "create" for s2 in keep):
                continue
            cand = dict(cur, plans=[dict(plan, steps=keep)])
            if fails(cand):
                cur = cand
                changed = True
                break
        if changed:
            continue
        if cur["config"] != 0:
            cand = dict(cur, config=0)
            if fails(cand):
                cur = cand
                changed = True
                continue
        # then the header model, with the plan carried over by object-type identity
        cpp = cur.get("lang") == "cpp"
        old_types = hdrgen.object_types_cpp(cur["model"]) if cpp else hdrgen.object_types(cur["model"])
        for mc in model_candidates(cur["model"]):
            new_types = hdrgen.object_types_cpp(mc) if cpp else hdrgen.object_types(mc)
            np = _remap_plan(old_types, new_types, plan)
            if np is None:
                continue
            cand = dict(cur, model=mc, plans=[np])
            if fails(cand):
                cur = cand
                changed = True
                break
    return cur, tries


def phase_wrappers(prop, tier, seed, report):
    import wrapsim
    build_shim()
    build_bindgen()
    n = 300 if tier == "quick" else 12000
    t0 = time.time()
    cases = [wrap_case_for(seed, i, tier) for i in range(n)]
    with ThreadPoolExecutor(max_workers=WORKERS) as ex:
        results = list(ex.map(eval_wrap_case, cases))
    wall = time.time() - t0
    stats = {}
    digests = set()
    distinct_programs = set()
    shapes = set()
    viol = []
    known = load_known()
    known_seen = set()
    for c, r in zip(cases, results):
        for k, v in r["stats"].items():
            stats[k] = stats.get(k, 0) + v
        if r.get("digest"):
            digests.add(r["digest"])
        distinct_programs.update(r.get("programs", []))
        m = hdrgen.gen_model(c["model_seed"])
        shapes.add((len(m["traits"]), len(m["groups"]), len(m["contexts"]), bool(m["no_context"]), c["config"]))
        if r["violation"]:
            viol.append((c, r["violation"], r.get("plan_index")))
        for f in r.get("findings", []):
            e = known_match(known, prop, f["class"], f["site"])
            if e:
                if (f["class"], f["site"]) not in known_seen:
                    known_seen.add((f["class"], f["site"]))
                    report["known_findings"].append({"class": f["class"], "site": f["site"]})
                    log("KNOWN-FINDING: property=%s %s at %s (%s)" % (prop, f["class"], f["site"], e.get("what", "")))
            else:
                viol.append((c, f, f.get("plan_index")))
    programs = stats.get("programs", 0)
    report["evaluations"] += programs
    report["distinct_nontrivial"] += len(distinct_programs)
    report["jobs"].append({
        "engine": "wrapsim", "binary": "cglue-bindgen (release, built from /repo); generated wrappers compiled with cc -std=c99 and executed", "header_models": n,
        "c_programs_run": programs - stats.get("programs_cpp", 0), "cpp_programs_run": stats.get("programs_cpp", 0), "of_which_under_asan_ubsan": stats.get("programs_sanitized", 0), "vtable_entry_invocations_through_wrappers": stats.get("slot_calls", 0), "wall_s": round(wall, 2),
        "runs_per_hour": int(programs / wall * 3600) if wall > 0 else 0, "distinct_processed_headers": len(digests),
        "distinct_model_shapes (traits, groups, contexts, no-context objects, config)": len(shapes),
        "faults_fired": {"hash_seed": stats.get("fault.hash_seed", 0)},
    })
    report["samples"] += [{"engine": "wrapsim", "case": cases[i], "model": hdrgen.describe(hdrgen.gen_model(cases[i]["model_seed"]))} for i in (0, n // 2)]
    out = []
    seen = set()
    for c, v, pi in viol:
        key = (v["class"], v["site"] if v["class"] == "wrap.no_wrapper" else "")
        if key in seen:
            continue
        seen.add(key)
        mini, tries = minimise_wrap_case(c, v["class"], pi)
        final = eval_wrap_case(mini)
        fv = final["violation"] or (_wrap_findings_as_violations(final) or [None])[0] or v
        os.makedirs(os.path.join(REPLAYS, prop), exist_ok=True)
        path = os.path.join(REPLAYS, prop, "wrappers-seed%d-case%d.json" % (seed, c["index"]))
        doc = {"kind": "wrappers", "property": prop, "tier": tier, "seed": seed, "case": mini, "violation": fv, "minimiser_executions": tries,
               "original_model": hdrgen.describe(hdrgen.gen_model(c["model_seed"])),
               "reproduced_in_fresh_process": bool(final["violation"] or _wrap_findings_as_violations(final))}
        with open(path, "w") as f:
            json.dump(doc, f, indent=1, sort_keys=True)
            f.write("\n")
        out.append({"replay": path, "class": fv["class"], "msg": fv["msg"]})
    return out


def selftest_wrappers(n=120):
    """Determinism of the C17 runs: the same cases evaluated twice, at two worker counts, in fresh
    directories, give the same processed header and the same program logs."""
    build_shim()
    build_bindgen()
    cases = [wrap_case_for(1, i, "quick") for i in range(n)]
    ref = None
    bad = 0
    for workers in (1, 16, 16):
        with ThreadPoolExecutor(max_workers=workers) as ex:
            rs = list(ex.map(eval_wrap_case, cases))
        sig = [(r.get("digest"), r.get("log_digest"), (r["violation"] or {}).get("class")) for r in rs]
        if ref is None:
            ref = sig
        elif sig != ref:
            bad += 1
            log("NONDETERMINISM engine=wrapsim workers=%d differing cases=%s" % (workers, [i for i in range(n) if sig[i] != ref[i]][:10]))
    log("# determinism wrapsim: %d cases x 3 executions %s" % (n, "DIFFER" if bad else "identical"))
    return bad


def replay_wrappers(prop, doc, path):
    build_shim()
    build_bindgen()
    r = eval_wrap_case(doc["case"])
    v = r["violation"] or (_wrap_findings_as_violations(r) or [None])[0]
    if v:
        log("VIOLATION property=%s replay=%s" % (prop, path))
        log("#   class=%s site=%s" % (v["class"], v["site"]))
        log("#   %s" % v["msg"])
        return 1
    for f in r.get("findings", []):
        log("KNOWN-FINDING: property=%s %s at %s" % (prop, f["class"], f["site"]))
    log("# replay did not fail: the recorded violation (%s) does not occur on this tree" % doc["violation"]["class"])
    return 0


# --------------------------------------------------------------------------------------------
# C04(a): the macro expander as a process under owned hash seeds and listing permutations
# --------------------------------------------------------------------------------------------

EXPSIM = os.path.join(SIM, "target", "debug", "expsim")
EXP_INPUTS = [os.path.join(SIM, "objsim", "src", "corpus.rs"), os.path.join(SIM, "objsim", "src", "implementors_gen.rs")]


def run_expsim(src, hash_seed, permute=None):
    env = dict(os.environ, LD_PRELOAD=SHIM_SO, SIMRAND_SEED=str(hash_seed))
    cmd = [EXPSIM, src] + (["--permute", str(permute)] if permute is not None else [])
    p = subprocess.run(cmd, env=env, stdout=subprocess.PIPE, stderr=subprocess.PIPE, text=True)
    if p.returncode != 0:
        return None, p.stderr[-600:]
    return p.stdout, p.stderr


def parse_projection(text):
    decl, structs, inits = {}, {}, {}
    gdecl = {}
    for line in text.splitlines():
        if line.startswith("gdecl "):
            m = re.match(r"gdecl (\S+) mand: (.*) opt: (.*)$", line)
            if m:
                gdecl[m.group(1)] = (m.group(2).split(), m.group(3).split())
            continue
        if line.startswith("decl "):
            name, _, ms = line[5:].partition(": ")
            decl[name] = ms.split()
        elif line.startswith("struct "):
            name = line[7:].split(" ", 1)[0]
            body = line[line.index("{") + 1:line.rindex("}")]
            fields = []
            for f in body.split("; "):
                f = f.strip()
                if f:
                    fname, _, fty = f.partition(": ")
                    fields.append((fname, fty))
            structs[name] = fields
        elif line.startswith("init "):
            name = line[5:].split(" ", 1)[0]
            body = line[line.index("{") + 1:line.rindex("}")]
            inits[name] = [tuple(x.strip().split(" = ", 1)) for x in body.split("; ") if x.strip()]
    structs["__gdecl__"] = gdecl
    return decl, structs, inits


def intres_violation(text):
    """C13, end to end: the vtable entry of every method marked to use integer results returns the
    integer code (`-> i32`); entries of unmarked methods do not."""
    _, structs, _ = parse_projection(text)
    for line in text.splitlines():
        if not line.startswith("intres "):
            continue
        name, _, ms = line[7:].partition(": ")
        fields = dict(structs.get(name + "Vtbl", []))
        for m in ms.split():
            sig = fields.get(m)
            if sig is None:
                return {"class": "intres.entry_not_coded", "site": "%s::%s" % (name, m), "msg": "method %s::%s is marked to use integer results, but its trait's vtable has no entry of that name" % (name, m)}
            if not sig.replace(" ", "").endswith("->i32"):
                return {"class": "intres.entry_not_coded", "site": "%s::%s" % (name, m), "msg": "method %s::%s is marked to use integer results, but its vtable entry is `%s`: it does not return the integer code" % (name, m, sig[-120:])}
    return None


def order_violation(text):
    for line in text.splitlines():
        if line.startswith("UNPARSABLE "):
            return {"class": "expand.rejects_corpus", "site": "expansion", "msg": line[:300]}
    decl, structs, inits = parse_projection(text)
    if not decl and not structs and not inits:
        return {"class": "expand.rejects_corpus", "site": "expansion", "msg": "the projection of the expansion is empty: no trait, no structure, no vtable initialiser"}
    for t, methods in sorted(decl.items()):
        vt = structs.get(t + "Vtbl")
        if vt is None:
            # a trait of the corpus whose vtable cannot be found in its own expansion: nothing
            # about its layout can be said, which is not the same as "in order"
            return {"class": "layout.vtable_missing", "site": t, "msg": "the expansion of trait %s contains no repr(C) structure %sVtbl" % (t, t)}
        got = [f for f, _ in vt if not f.startswith("_")]
        if got != methods:
            return {"class": "layout.vtable_order", "site": t, "msg": "vtable of %s has slots %r but the trait declares %r (one function pointer per exported method, in declaration order)" % (t, got, methods)}
        # every slot is filled with the wrapper of the method of the same name. The wrappers' private
        # naming scheme and the order of the fields in the initialiser are the generator's business:
        # only "one common prefix + the slot's own name" and "every slot exactly once" are demanded.
        ini = [(a, b) for a, b in inits.get(t + "Vtbl", []) if not a.startswith("_")]
        prefixes = set()
        for slot, fn in ini:
            if not fn.endswith(slot):
                return {"class": "layout.slot_wiring", "site": t, "msg": "default vtable of %s fills slot %s with %s" % (t, slot, fn)}
            prefixes.add(fn[:len(fn) - len(slot)])
        if len(prefixes) > 1:
            return {"class": "layout.slot_wiring", "site": t, "msg": "default vtable of %s fills its slots with wrappers of different naming (%r): a slot is wired to another method's wrapper" % (t, sorted(prefixes))}
        if sorted(a for a, _ in ini) != sorted(methods):
            return {"class": "layout.slot_wiring", "site": t, "msg": "default vtable of %s initialises slots %r, declared %r" % (t, sorted(a for a, _ in ini), sorted(methods))}
    gdecl = structs.pop("__gdecl__", {})
    for n, fs in sorted(structs.items()):
        if n.endswith("Container") and fs and fs[0][0] == "instance" or (n.endswith("Container") and any(f == "instance" for f, _ in fs)):
            names = [f for f, _ in fs]
            ok = len(names) >= 2 and names[0] == "instance" and names[1] == "context" and all(x.startswith("ret_tmp") for x in names[2:])
            if not ok:
                return {"class": "layout.container_order", "site": n, "msg": "container %s is laid out as %r; expected instance, context, temporary storage" % (n, names)}
    for g, (mand_names, opt_names) in sorted(gdecl.items()):
        if g not in structs:
            continue
        # name order = order of the trait names / aliases as identifiers (case-sensitive)
        want = ["vtbl_" + x.lower() for x in sorted(mand_names)] + ["vtbl_" + x.lower() for x in sorted(opt_names)] + ["container"]
        got = [f for f, _ in structs[g]]
        if got != want:
            return {"class": "layout.group_order", "site": g, "msg": "group %s is laid out as %r; name order of its traits gives %r" % (g, got, want)}
    groups = [n for n in structs if (n + "Container") in structs and any(f.startswith("vtbl_") for f, _ in structs[n])]
    for g in sorted(groups):
        fields = structs[g]
        names = [f for f, _ in fields]
        vt = [(f, ty) for f, ty in fields if f.startswith("vtbl_")]
        mand = [f for f, ty in vt if "Option<" not in ty]
        opt = [f for f, ty in vt if "Option<" in ty]
        if names != mand + opt + ["container"]:
            return {"class": "layout.group_order", "site": g, "msg": "group %s is laid out as %r; expected mandatory vtables, optional vtables, container" % (g, names)}
        base = [f for f, _ in vt]
        # the container's temporary storage follows the order of the vtables it belongs to
        tmp = [f[len("ret_tmp_"):] for f, _ in structs[g + "Container"] if f.startswith("ret_tmp_")]
        if tmp != [f[len("vtbl_"):] for f in base]:
            return {"class": "layout.container_order", "site": g + "Container", "msg": "container of group %s keeps its temporary storage in the order %r, its vtables are ordered %r (mandatory by name, then optional by name)" % (g, tmp, [f[len("vtbl_"):] for f in base])}
        for n, fs in structs.items():
            if n != g and n.startswith(g) and (n.startswith(g + "With") or n.startswith(g + "FinalWith")):
                seq = [f for f, _ in fs if f.startswith("vtbl_")]
                it = iter(base)
                if not all(x in it for x in seq) or [f for f, _ in fs][-1] != "container":
                    return {"class": "layout.group_order", "site": n, "msg": "variant %s orders its vtables %r, the group orders them %r" % (n, seq, base)}
    return None


def phase_expander(prop, tier, seed, report):
    from driver_main import cargo_build
    build_shim()
    cargo_build("expsim", False)
    k = 8 if tier == "quick" else 96
    pn = 6 if tier == "quick" else 64
    if prop == "C13":
        # the signature oracle needs the projection, not its stability: a few hash seeds suffice
        k, pn = (2, 0) if tier == "quick" else (8, 4)
    t0 = time.time()
    jobs = []
    for src in EXP_INPUTS:
        for i in range(k):
            jobs.append((src, seed * 1009 + i * 31 + 1, None))
        for j in range(pn):
            jobs.append((src, seed * 1009 + 5, seed * 77 + j))
    with ThreadPoolExecutor(max_workers=WORKERS) as ex:
        outs = list(ex.map(lambda jb: run_expsim(*jb), jobs))
    wall = time.time() - t0
    viol = []
    ref = {}
    digests = set()
    for (src, hs, perm), (out, err) in zip(jobs, outs):
        name = os.path.basename(src)
        if out is None:
            viol.append({"class": "expand.rejects_corpus", "site": name, "msg": "the expander failed on the corpus definitions: %s" % err.replace("\n", " | "), "case": {"source": name, "hash_seed": hs, "permute": perm}})
            continue
        digests.add(hashlib.sha256((name + out).encode()).hexdigest())
        if name not in ref:
            ref[name] = (out, hs, perm)
            ov = intres_violation(out) if prop == "C13" else order_violation(out)
            if ov:
                ov["case"] = {"source": name, "hash_seed": hs, "permute": perm}
                viol.append(ov)
        elif out != ref[name][0]:
            a = ref[name][0].splitlines()
            b = out.splitlines()
            diff = [(x, y) for x, y in zip(a, b) if x != y][:1]
            cls = "expand.nondeterministic_layout" if perm is None else "expand.listing_order_dependent"
            viol.append({"class": cls, "site": name, "msg": "layout projection of the expansion differs (%s): first differing line %r vs %r" % (
                "hash seed %d vs %d" % (ref[name][1], hs) if perm is None else "traits listed in another order (permutation %d)" % perm, diff[0][0][:160] if diff else "", diff[0][1][:160] if diff else ""),
                "case": {"source": name, "hash_seed": hs, "permute": perm, "reference_hash_seed": ref[name][1]}})
    n = len(jobs)
    report["evaluations"] += n
    report["distinct_nontrivial"] += n if not viol else len(digests)
    report["jobs"].append({
        "engine": "gensim.expander", "binary": "expsim (links cglue-gen from /repo as a library)", "runs": n, "wall_s": round(wall, 2),
        "runs_per_hour": int(n / wall * 3600) if wall > 0 else 0, "hash_seeds": k, "listing_permutations": pn,
        "expansions_per_run": {"corpus.rs": 15, "implementors_gen.rs": 38}, "distinct_projections": len(digests),
        "faults_fired": {"hash_seed": k * len(EXP_INPUTS), "listing_permutation": pn * len(EXP_INPUTS)},
    })
    report["samples"].append({"engine": "gensim.expander", "case": {"source": "corpus.rs", "hash_seed": jobs[0][1]}, "projection_head": (outs[0][0] or "").splitlines()[:3]})
    out = []
    seen = set()
    for v in viol:
        key = (v["class"], v["site"])
        if key in seen:
            continue
        seen.add(key)
        os.makedirs(os.path.join(REPLAYS, prop), exist_ok=True)
        path = os.path.join(REPLAYS, prop, "expander-seed%d-%s-%s.json" % (seed, v["class"].replace(".", "_"), re.sub(r"[^A-Za-z0-9]", "_", v["site"])))
        with open(path, "w") as f:
            json.dump({"kind": "expander", "property": prop, "tier": tier, "seed": seed, "case": v["case"], "violation": {k2: v[k2] for k2 in ("class", "site", "msg")}}, f, indent=1, sort_keys=True)
            f.write("\n")
        out.append({"replay": path, "class": v["class"], "msg": v["msg"]})
    return out


def replay_expander(prop, doc, path):
    from driver_main import cargo_build
    build_shim()
    cargo_build("expsim", False)
    c = doc["case"]
    src = [s for s in EXP_INPUTS if os.path.basename(s) == c["source"]][0]
    out, err = run_expsim(src, c["hash_seed"], c.get("permute"))
    v = None
    if out is None:
        v = {"class": "expand.rejects_corpus", "msg": err}
    else:
        v = intres_violation(out) if prop == "C13" else order_violation(out)
        if v is None and (c.get("reference_hash_seed") is not None or c.get("permute") is not None):
            ref, _ = run_expsim(src, c.get("reference_hash_seed", c["hash_seed"]), None)
            if ref != out:
                v = {"class": doc["violation"]["class"], "msg": "projection differs from the reference run"}
    if v:
        log("VIOLATION property=%s replay=%s" % (prop, path))
        log("#   class=%s: %s" % (v["class"], v.get("msg", "")[:300]))
        return 1
    log("# replay did not fail: the recorded violation (%s) does not occur on this tree" % doc["violation"]["class"])
    return 0
