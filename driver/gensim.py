"""gensim: simulation of the cglue-bindgen post-processor (C18) and of the macro expander (C04a)
as processes whose environment the run owns: the process hash seed (LD_PRELOAD getrandom shim),
the cbindgen subprocess (fake executable first on PATH), the command line.
"""
import hashlib
import json
import os
import re
import shutil
import subprocess
import tempfile
import time
from concurrent.futures import ThreadPoolExecutor

import hdrgen
from driver_main import CARGO_ENV, REPO, REPLAYS, SIM, WORKERS, HarnessError, load_known, known_match, log

SHIM_SRC = os.path.join(SIM, "shim", "getrandom.c")
SHIM_SO = os.path.join(SIM, "target", "shim", "libsimrand.so")
FAKEBIN = os.path.join(SIM, "shim", "fakebin")
BINDGEN_TARGET = os.path.join(SIM, "target", "bindgen")
BINDGEN = os.path.join(BINDGEN_TARGET, "release", "cglue-bindgen")

_built = {}


def build_shim():
    if _built.get("shim"):
        return
    os.makedirs(os.path.dirname(SHIM_SO), exist_ok=True)
    p = subprocess.run(["cc", "-shared", "-fPIC", "-O1", "-o", SHIM_SO, SHIM_SRC], stdout=subprocess.PIPE, stderr=subprocess.STDOUT, text=True)
    if p.returncode != 0:
        raise HarnessError("cannot build the getrandom shim: " + p.stdout)
    _built["shim"] = True


def build_bindgen():
    if _built.get("bindgen"):
        return
    t0 = time.time()
    p = subprocess.run(["cargo", "build", "--offline", "-q", "-p", "cglue-bindgen", "--release", "--target-dir", BINDGEN_TARGET],
                       cwd=REPO, env=CARGO_ENV, stdout=subprocess.PIPE, stderr=subprocess.STDOUT, text=True)
    if p.returncode != 0:
        raise HarnessError("cglue-bindgen does not build:\n" + "\n".join(p.stdout.splitlines()[-30:]))
    _built["bindgen"] = True
    log("# built cglue-bindgen (release) in %.1fs" % (time.time() - t0))


CONFIGS = [
    None,
    {"default_container": "Box", "default_context": "Arc"},
    {"default_container": "Mut"},
    {"function_prefix": "pfx"},
    {"default_container": "Box", "default_context": "Arc", "function_prefix": "api"},
]

# argv after `--`: where the output pair sits and which spelling it uses
ARGV_SHAPES = [
    ["--config", "cb.toml", "--crate", "foo", "-o", "{out}", "-l", "C"],
    ["-o", "{out}", "--config", "cb.toml", "--crate", "foo", "-l", "C"],
    ["--config", "cb.toml", "--crate", "foo", "-l", "C", "--output", "{out}"],
    ["--crate", "foo", "--output", "{out}", "-v", "--lang", "C", "--config", "cb.toml"],
]


def run_tool(workdir, header_path, config, argv_shape, hash_seed, fail=False, tag=""):
    out_path = os.path.join(workdir, "out%s-%d.h" % (tag, hash_seed))
    argv_log = os.path.join(workdir, "argv%s-%d.txt" % (tag, hash_seed))
    for pth in (out_path, argv_log):
        if os.path.exists(pth):
            os.remove(pth)
    pre = []
    if config is not None:
        cpath = os.path.join(workdir, "cglue%s.toml" % tag)
        with open(cpath, "w") as f:
            for k in sorted(config):
                f.write('%s = "%s"\n' % (k, config[k]))
        pre = ["-c", cpath]
    post = [a.replace("{out}", out_path) for a in ARGV_SHAPES[argv_shape]]
    env = dict(os.environ)
    env.update({
        "PATH": FAKEBIN + os.pathsep + env.get("PATH", ""),
        "LD_PRELOAD": SHIM_SO,
        "SIMRAND_SEED": str(hash_seed),
        "FAKE_CBINDGEN_HEADER": header_path,
        "FAKE_CBINDGEN_ARGV_LOG": argv_log,
        "FAKE_CBINDGEN_EXIT": "1" if fail else "0",
    })
    p = subprocess.run([BINDGEN] + pre + ["--"] + post, cwd=workdir, env=env, stdout=subprocess.PIPE, stderr=subprocess.PIPE, text=True, errors="replace")
    seen = []
    if os.path.exists(argv_log):
        with open(argv_log) as f:
            seen = f.read().split("\n")[:-1]
    output = None
    if os.path.exists(out_path):
        with open(out_path, "rb") as f:
            output = f.read()
    expect_argv = []
    skip = False
    for a in post:
        if skip:
            skip = False
            continue
        if a in ("-o", "--output"):
            skip = True
            continue
        expect_argv.append(a)
    return {"rc": p.returncode, "stdout": p.stdout, "stderr": p.stderr[-500:], "argv_seen": seen, "argv_expected": expect_argv, "output": output, "out_path": out_path}


def foreign_order(text, markers):
    pos = []
    for m in markers:
        i = text.find(m)
        pos.append(i)
    return pos


def eval_case(case, keep_dir=None):
    """One evaluation: a (header model, config, argv shape) under several hash seeds.
    Returns dict(violation=None|{class, site, msg}, stats)."""
    model = case["model"] if "model" in case else hdrgen.gen_model(case["model_seed"])
    header, foreign = hdrgen.render(model)
    config = CONFIGS[case["config"]]
    d = keep_dir or tempfile.mkdtemp(prefix="cglue-verif-gensim-")
    stats = {"tool_runs": 0, "fault.hash_seed": 0, "fault.subprocess_fail": 0}
    try:
        hp = os.path.join(d, "input.h")
        with open(hp, "w") as f:
            f.write(header)
        outs = {}
        first = None
        for hs in case["hash_seeds"]:
            r = run_tool(d, hp, config, case["argv"], hs)
            stats["tool_runs"] += 1
            stats["fault.hash_seed"] += 1
            if first is None:
                first = r
            if r["rc"] != 0 or r["output"] is None:
                return {"violation": {"class": "bindgen.rejects_supported_header", "site": "run", "msg": "cglue-bindgen exit %s on a header of the supported shape: %s" % (r["rc"], r["stderr"].replace("\n", " | "))}, "stats": stats}
            outs[hs] = r["output"]
            # argv clause
            if r["argv_seen"] != r["argv_expected"]:
                return {"violation": {"class": "bindgen.argv", "site": "argv shape %d" % case["argv"], "msg": "cbindgen received %r, expected %r (everything after `--` except the output pair, in order)" % (r["argv_seen"], r["argv_expected"])}, "stats": stats}
            if r["stdout"].strip():
                return {"violation": {"class": "bindgen.output_path", "site": "stdout", "msg": "the processed header was printed although an output path was given"}, "stats": stats}
        digests = {hs: hashlib.sha256(o).hexdigest() for hs, o in outs.items()}
        if len(set(digests.values())) > 1:
            groups = {}
            for hs, dg in sorted(digests.items()):
                groups.setdefault(dg[:12], []).append(hs)
            site = "contexts>=2" if len(model["contexts"]) >= 2 else "single context"
            return {"violation": {"class": "bindgen.nondeterministic_output", "site": site, "msg": "same header and configuration, different process hash seeds, different output: %s" % json.dumps(groups, sort_keys=True)}, "stats": stats}
        text = outs[case["hash_seeds"][0]].decode("utf-8", "replace")
        # compile oracle
        cp = os.path.join(d, "check.c")
        with open(cp, "w") as f:
            f.write('#include <string.h>\n#include "%s"\nint main(void) { return 0; }\n' % first["out_path"])
        cc = subprocess.run(["cc", "-std=c99", "-fsyntax-only", "-Wno-unused", cp], stdout=subprocess.PIPE, stderr=subprocess.STDOUT, text=True)
        stats["cc_runs"] = 1
        if cc.returncode != 0:
            return {"violation": {"class": "bindgen.c_compile", "site": "cc -std=c99", "msg": "the processed header is rejected by the C compiler: " + " | ".join(cc.stdout.splitlines()[:4])}, "stats": stats}
        # foreign declarations preserved, unmodified, in order
        before = foreign_order(header, foreign)
        after = foreign_order(text, foreign)
        if any(p < 0 for p in after):
            missing = [m for m, p in zip(foreign, after) if p < 0]
            return {"violation": {"class": "bindgen.foreign_decl", "site": "missing", "msg": "declarations that do not belong to CGlue constructs disappeared or were modified: %r" % missing}, "stats": stats}
        if sorted(range(len(after)), key=lambda i: after[i]) != sorted(range(len(before)), key=lambda i: before[i]):
            return {"violation": {"class": "bindgen.foreign_decl", "site": "order", "msg": "foreign declarations were reordered"}, "stats": stats}
        # full text of foreign structs unchanged
        for m in foreign:
            if m.startswith("typedef struct"):
                s0 = header.find(m)
                e0 = header.find("}", s0)
                if header[s0:e0] not in text:
                    return {"violation": {"class": "bindgen.foreign_decl", "site": "body", "msg": "body of %r was altered" % m}, "stats": stats}
        # probe (not an oracle): what the tool does when cbindgen fails
        if case.get("probe_fail"):
            r = run_tool(d, hp, config, case["argv"], case["hash_seeds"][0], fail=True, tag="f")
            stats["tool_runs"] += 1
            stats["fault.subprocess_fail"] += 1
            stats["probe.tool_nonzero_when_cbindgen_fails"] = 1 if r["rc"] != 0 else 0
        return {"violation": None, "stats": stats, "digest": list(digests.values())[0]}
    finally:
        if keep_dir is None:
            shutil.rmtree(d, ignore_errors=True)


def case_for(seed, i, tier):
    r = hdrgen.Rng(seed * 1000003 + i)
    k = 6 if tier == "quick" else 12
    base = r.below(1 << 20)
    return {
        "index": i,
        "model_seed": seed * 7919 + i,
        "config": r.below(len(CONFIGS)),
        "argv": r.below(len(ARGV_SHAPES)),
        "hash_seeds": [base + j * 17 + 1 for j in range(k)],
        "probe_fail": r.chance(1, 10),
    }


def minimise_case(case, cls):
    """Shrinks the header model (fewer traits, containers, contexts, no leftover, no config) while
    the same violation class persists."""
    model = hdrgen.gen_model(case["model_seed"])
    cur = dict(case, model=model)
    cur.pop("model_seed", None)
    tries = 0

    def fails(c):
        nonlocal tries
        tries += 1
        r = eval_case(c)
        return r["violation"] is not None and r["violation"]["class"] == cls

    changed = True
    while changed:
        changed = False
        m = cur["model"]
        cands = []
        for ti in range(len(m["traits"])):
            if len(m["traits"]) > 1:
                cands.append(dict(m, traits=m["traits"][:ti] + m["traits"][ti + 1:]))
        for ti, t in enumerate(m["traits"]):
            for ci in range(len(t["conts"])):
                if len(t["conts"]) > 1:
                    nt = dict(t, conts=t["conts"][:ci] + t["conts"][ci + 1:])
                    cands.append(dict(m, traits=m["traits"][:ti] + [nt] + m["traits"][ti + 1:]))
            for fi in range(len(t["funcs"])):
                if len(t["funcs"]) > 1:
                    nt = dict(t, funcs=t["funcs"][:fi] + t["funcs"][fi + 1:])
                    cands.append(dict(m, traits=m["traits"][:ti] + [nt] + m["traits"][ti + 1:]))
        for ci in range(1, len(m["contexts"])):
            cands.append(dict(m, contexts=m["contexts"][:ci] + m["contexts"][ci + 1:]))
        for flag in ("leftover", "foreign_early", "foreign_names", "guard", "group"):
            if m.get(flag):
                cands.append(dict(m, **{flag: False}))
        for c in cands:
            cc = dict(cur, model=c)
            if fails(cc):
                cur = cc
                changed = True
                break
        if not changed and cur["config"] != 0:
            cc = dict(cur, config=0)
            if fails(cc):
                cur = cc
                changed = True
        if not changed and len(cur["hash_seeds"]) > 2:
            # keep two hash seeds that still disagree
            hs = cur["hash_seeds"]
            for a in range(len(hs)):
                for b in range(a + 1, len(hs)):
                    cc = dict(cur, hash_seeds=[hs[a], hs[b]])
                    if fails(cc):
                        cur = cc
                        changed = True
                        break
                if changed:
                    break
    return cur, tries


def phase_bindgen(prop, tier, seed, report):
    build_shim()
    build_bindgen()
    n = 400 if tier == "quick" else 20000
    t0 = time.time()
    cases = [case_for(seed, i, tier) for i in range(n)]
    with ThreadPoolExecutor(max_workers=WORKERS) as ex:
        results = list(ex.map(eval_case, cases))
    wall = time.time() - t0
    stats = {}
    digests = set()
    viol = []
    shapes = set()
    for c, r in zip(cases, results):
        for k, v in r["stats"].items():
            stats[k] = stats.get(k, 0) + v
        if r.get("digest"):
            digests.add(r["digest"])
        m = hdrgen.gen_model(c["model_seed"])
        shapes.add((len(m["traits"]), len(m["contexts"]), m["leftover"], c["config"], c["argv"]))
        if r["violation"]:
            viol.append((c, r["violation"]))
    report["evaluations"] += n
    report["distinct_nontrivial"] += len(digests) + len(set((c["model_seed"]) for c, _ in viol))
    report["jobs"].append({
        "engine": "gensim.bindgen", "binary": "cglue-bindgen (release, built from /repo)", "runs": n, "wall_s": round(wall, 2),
        "runs_per_hour": int(n / wall * 3600) if wall > 0 else 0,
        "tool_processes": stats.get("tool_runs", 0), "cc_syntax_checks": stats.get("cc_runs", 0),
        "distinct_outputs": len(digests), "distinct_model_shapes (traits, contexts, leftover, config, argv)": len(shapes),
        "faults_fired": {"hash_seed": stats.get("fault.hash_seed", 0), "subprocess_fail": stats.get("fault.subprocess_fail", 0)},
        "probes": {"tool_nonzero_when_cbindgen_fails": stats.get("probe.tool_nonzero_when_cbindgen_fails", 0)},
    })
    report["samples"] += [{"engine": "gensim.bindgen", "case": {k: v for k, v in cases[i].items()}, "model": hdrgen.describe(hdrgen.gen_model(cases[i]["model_seed"]))} for i in (0, n // 2)]
    known = load_known()
    out = []
    seen = set()
    for c, v in viol:
        key = (v["class"], v["site"])
        if key in seen:
            continue
        seen.add(key)
        e = known_match(known, prop, v["class"], v["site"])
        if e:
            report["known_findings"].append({"class": v["class"], "site": v["site"]})
            log("KNOWN-FINDING: property=%s %s at %s (%s)" % (prop, v["class"], v["site"], e.get("what", "")))
            continue
        mini, tries = minimise_case(c, v["class"])
        final = eval_case(mini)
        fv = final["violation"] or v
        os.makedirs(os.path.join(REPLAYS, prop), exist_ok=True)
        path = os.path.join(REPLAYS, prop, "bindgen-seed%d-case%d.json" % (seed, c["index"]))
        doc = {"kind": "bindgen", "property": prop, "tier": tier, "seed": seed, "case": {k: v2 for k, v2 in mini.items()},
               "violation": fv, "minimiser_executions": tries, "original_model": hdrgen.describe(hdrgen.gen_model(c["model_seed"])),
               "reproduced_in_fresh_process": final["violation"] is not None}
        with open(path, "w") as f:
            json.dump(doc, f, indent=1, sort_keys=True)
            f.write("\n")
        out.append({"replay": path, "class": fv["class"], "msg": fv["msg"]})
    return out


def replay_bindgen(prop, doc, path):
    build_shim()
    build_bindgen()
    r = eval_case(doc["case"])
    if r["violation"]:
        known = load_known()
        if known_match(known, prop, r["violation"]["class"], r["violation"]["site"]):
            log("KNOWN-FINDING: property=%s %s at %s" % (prop, r["violation"]["class"], r["violation"]["site"]))
            return 0
        log("VIOLATION property=%s replay=%s" % (prop, path))
        log("#   class=%s site=%s" % (r["violation"]["class"], r["violation"]["site"]))
        log("#   %s" % r["violation"]["msg"])
        return 1
    log("# replay did not fail: the recorded violation (%s) does not occur on this tree" % doc["violation"]["class"])
    return 0
