"""Orchestration: build, fan out worker processes, collect, minimise, replay, evidence."""
import json
import os
import re
import shutil
import signal
import subprocess
import sys
import tempfile
import time
from array import array
from concurrent.futures import ThreadPoolExecutor

HERE = os.path.dirname(os.path.abspath(__file__))
VERIF = os.path.dirname(HERE)
SIM = os.environ.get("VERIF_SIM", os.path.join(VERIF, "sim"))
REPO = os.environ.get("VERIF_REPO", "/repo")
EVID = os.environ.get("VERIF_EVIDENCE_DIR", os.path.join(VERIF, "evidence"))
REPLAYS = os.environ.get("VERIF_REPLAY_DIR", os.path.join(VERIF, "replays"))
WORKERS = int(os.environ.get("VERIF_WORKERS", "16"))
KNOWN_FILE = os.path.join(VERIF, "known_findings.json")

CARGO_ENV = dict(os.environ, CARGO_NET_OFFLINE="true")


class HarnessError(Exception):
    pass


class CorpusRejected(HarnessError):
    """The corpus of legal user programs (traits, groups, implementors, cast requests: files that
    use nothing but cglue's public macros and API) no longer compiles against /repo, and every
    compiler error points into those files — not into the harness plumbing around them."""
    def __init__(self, package, message, locations):
        HarnessError.__init__(self, "the corpus of %s is rejected by the compiler" % package)
        self.package = package
        self.message = message
        self.locations = locations


CORPUS_FILES = ("objsim/src/corpus.rs", "objsim/src/groups_gen.rs", "objsim/src/implementors_gen.rs")


def log(msg):
    print(msg, flush=True)


# --------------------------------------------------------------------------------------------
# building
# --------------------------------------------------------------------------------------------

_built = set()


def cargo_build(package, release=False):
    key = (package, release)
    if key in _built:
        return
    cmd = ["cargo", "build", "--offline", "-q", "-p", package]
    if release:
        cmd.append("--release")
    t0 = time.time()
    p = subprocess.run(cmd, cwd=SIM, env=CARGO_ENV, stdout=subprocess.PIPE, stderr=subprocess.STDOUT, text=True)
    if p.returncode != 0:
        tail = "\n".join(p.stdout.splitlines()[-40:])
        locs = re.findall(r"^\s*--> (\S+?):(\d+):\d+", p.stdout, re.M)
        first_of_each_error = []
        for block in re.split(r"^error", p.stdout, flags=re.M)[1:]:
            m = re.search(r"^\s*--> (\S+?):(\d+):\d+", block, re.M)
            if m:
                first_of_each_error.append("%s:%s" % (m.group(1), m.group(2)))
        if first_of_each_error and all(any(l.startswith(c) for c in CORPUS_FILES) for l in first_of_each_error):
            errs = [l for l in p.stdout.splitlines() if l.startswith("error")]
            raise CorpusRejected(package, " | ".join(errs[:4]), sorted(set(first_of_each_error))[:8])
        raise HarnessError("build of %s failed (harness no longer compiles against %s):\n%s" % (package, REPO, tail))
    _built.add(key)
    log("# built %s (%s) in %.1fs" % (package, "release" if release else "debug", time.time() - t0))


def bin_path(binname, release=False):
    return os.path.join(SIM, "target", "release" if release else "debug", binname)


# --------------------------------------------------------------------------------------------
# worker protocol
# --------------------------------------------------------------------------------------------


class ChunkResult:
    def __init__(self):
        self.ok = 0
        self.steps = 0
        self.fails = []  # dicts: run, planhash, class, step, site, msg
        self.findings = {}  # (class, site) -> [count, first_run]
        self.stats = {}
        self.loghashes = {}  # run -> (planhash, loghash) (only when keep_hashes)
        self.nontrivial = 0


def parse_fail(line):
    # FAIL i planhash class step site ## msg
    head, _, msg = line.partition(" ## ")
    parts = head.split(" ", 5)
    return {
        "run": int(parts[1]),
        "planhash": parts[2],
        "class": parts[3],
        "step": int(parts[4]),
        "site": parts[5] if len(parts) > 5 else "",
        "msg": msg,
    }


def run_chunk(job, seed, lo, hi, tier, hashes_prefix=None, keep_hashes=False):
    """Runs [lo,hi) in worker processes, restarting after a crash. Returns ChunkResult."""
    res = ChunkResult()
    cur = lo
    part = 0
    while cur < hi:
        cmd = job.cmd_prefix(tier) + [job.engine, "run", "--seed", str(seed), "--from", str(cur), "--to", str(hi)]
        if tier == "thorough":
            cmd.append("--thorough")
        if hashes_prefix:
            cmd += ["--out-hashes", "%s.p%d" % (hashes_prefix, part)]
        cmd += job.extra_args
        part += 1
        p = subprocess.Popen(cmd, stdout=subprocess.PIPE, stderr=subprocess.PIPE, text=True, env=job.env(), errors="replace")
        hung = False
        try:
            out, err = p.communicate(timeout=40 + 0.02 * (hi - cur))
        except subprocess.TimeoutExpired:
            # a wedged worker (e.g. heap corruption by the code under test): kill it, keep what it printed
            p.kill()
            out, err = p.communicate()
            hung = True
        last_run = None
        finished_runs = set()
        ended = False
        stopped = False
        for line in out.splitlines():
            if line.startswith("RUN "):
                last_run = int(line[4:])
            elif line.startswith("OK "):
                f = line.split(" ")
                if len(f) < 7:
                    continue
                res.ok += 1
                finished_runs.add(int(f[1]))
                if keep_hashes:
                    res.loghashes[int(f[1])] = (f[2], f[3])
            elif line.startswith("FAIL "):
                try:
                    d = parse_fail(line)
                except (IndexError, ValueError):
                    continue  # truncated line of a dying worker
                finished_runs.add(d["run"])
                d["proc_lo"] = cur
                res.fails.append(d)
            elif line.startswith("FINDING "):
                head, _, site = line.partition(" ## ")
                f = head.split(" ")
                key = (f[3], site)
                e = res.findings.setdefault(key, [0, int(f[2])])
                e[0] += int(f[1])
                e[1] = min(e[1], int(f[2]))
            elif line.startswith("STAT "):
                f = line.split(" ")
                res.stats[f[1]] = res.stats.get(f[1], 0) + int(f[2])
            elif line.startswith("STOPPED "):
                stopped = True
                last_run = int(line.split(" ")[1])
            elif line == "END":
                ended = True
        if ended and not stopped:
            if p.returncode not in (0, None) and last_run is not None:
                # everything was printed, yet the process did not end cleanly (e.g. corruption the
                # allocator only notices at thread or process teardown)
                res.fails.append({"run": last_run, "proc_lo": cur, "planhash": "", "class": "crash.at_exit", "step": -1, "site": "process",
                                  "msg": "worker printed END but exited with status %s; stderr tail: %s" % (p.returncode, err[-300:].replace("\n", " | "))})
            break
        if stopped:
            # too many failures in this worker: do not continue this chunk
            break
        # crashed or was killed in run `last_run`
        if hung and last_run is not None and last_run in finished_runs:
            res.fails.append({"run": last_run, "proc_lo": cur, "planhash": "", "class": "crash.hang", "step": -1, "site": "process", "msg": "worker wedged after run %d" % last_run})
            break
        if last_run is None:
            raise HarnessError("worker produced no output: %s\n%s" % (" ".join(cmd), err[-2000:]))
        if last_run not in finished_runs:
            sig = -p.returncode if p.returncode and p.returncode < 0 else p.returncode
            signame = sig
            try:
                signame = signal.Signals(sig).name
            except Exception:
                pass
            if hung:
                signame = "hang"
            res.fails.append({
                "run": last_run, "proc_lo": cur, "planhash": "", "class": "crash.%s" % signame, "step": -1, "site": "process",
                "msg": "worker died (%s) during run %d; stderr tail: %s" % (signame, last_run, err[-400:].replace("\n", " | ")),
            })
        cur = last_run + 1
        ncrash = sum(1 for d in res.fails if d["class"].startswith("crash."))
        if len(res.fails) >= 400 or ncrash >= 6:
            break
    return res


class Job:
    """One engine of one binary, with the number of runs per tier."""

    def __init__(self, package, engine, quick, thorough, release_in=("thorough",), extra_args=None, env=None, label=None, weight=1):
        self.package = package
        self.binname = package
        self.engine = engine
        self.runs = {"quick": quick, "thorough": thorough}
        self.release_in = release_in
        self.extra_args = extra_args or []
        self._env = env or {}
        self.label = label or engine

    def release(self, tier):
        return tier in self.release_in

    def build(self, tier):
        cargo_build(self.package, self.release(tier))

    def cmd_prefix(self, tier):
        return [bin_path(self.binname, self.release(tier))]

    def env(self):
        e = dict(os.environ)
        e.update(self._env)
        return e

    def gen_plan(self, seed, run, tier):
        cmd = self.cmd_prefix(tier) + [self.engine, "gen", "--seed", str(seed), "--run", str(run)]
        if tier == "thorough":
            cmd.append("--thorough")
        p = subprocess.run(cmd, stdout=subprocess.PIPE, stderr=subprocess.PIPE, text=True, env=self.env())
        if p.returncode != 0:
            raise HarnessError("gen failed: %s" % p.stderr)
        return parse_plan_text(p.stdout)

    def exec_plan(self, plan, tier, want_log=False, timeout=25):
        """Execute a plan in a fresh process. Returns dict(status=ok|fail|crash, class, step, site, msg, log, findings)."""
        d = tempfile.mkdtemp(prefix="cglue-verif-exec-")
        try:
            path = os.path.join(d, "plan.txt")
            with open(path, "w") as f:
                f.write(plan_to_text(plan))
            cmd = self.cmd_prefix(tier) + [self.engine, "exec", "--plan-file", path] + self.extra_args
            if want_log:
                cmd.append("--log")
            try:
                p = subprocess.run(cmd, stdout=subprocess.PIPE, stderr=subprocess.PIPE, text=True, env=self.env(), timeout=timeout, errors="replace")
            except subprocess.TimeoutExpired:
                return {"status": "crash", "class": "hang", "step": -1, "site": "process", "msg": "timeout", "log": [], "findings": []}
            out = {"status": None, "log": [], "findings": []}
            for line in p.stdout.splitlines():
                if line.startswith("LOG "):
                    out["log"].append(line[4:])
                elif line.startswith("FINDING "):
                    head, _, site = line.partition(" ## ")
                    out["findings"].append((head.split(" ")[3], site))
                elif line.startswith("OK "):
                    f = line.split(" ")
                    out.update(status="ok", planhash=f[2], loghash=f[3])
                elif line.startswith("FAIL "):
                    dd = parse_fail(line)
                    out.update(status="fail", **{"class": dd["class"], "step": dd["step"], "site": dd["site"], "msg": dd["msg"]})
            if out["status"] is None:
                if p.returncode == 2:
                    raise HarnessError("exec rejected the plan: %s" % p.stderr)
                sig = -p.returncode if p.returncode < 0 else p.returncode
                try:
                    sig = signal.Signals(sig).name
                except Exception:
                    pass
                out.update(status="crash", **{"class": "crash.%s" % sig, "step": -1, "site": "process", "msg": "process died: %s; stderr tail: %s" % (sig, p.stderr[-400:].replace("\n", " | "))})
            return out
        finally:
            shutil.rmtree(d, ignore_errors=True)


class PluginJob(Job):
    """C05: the object engine with every erased object made by a separately compiled plugin module
    (cdylib built from the same corpus), loaded through the real dynamic loader."""

    def __init__(self, quick, thorough, label, toolchain=None, rustflags=None, host_release=False):
        super().__init__("objsim", "obj", quick, thorough, release_in=("quick", "thorough") if host_release else (), label=label)
        self.toolchain = toolchain
        self.rustflags = rustflags
        self.variant = (toolchain or "stable") + ("-" + "".join(c for c in (rustflags or "") if c.isalnum()) if rustflags else "")
        self.plug_target = os.path.join(SIM, "target", "plug-" + self.variant)

    def plugin_path(self):
        return os.path.join(self.plug_target, "release", "libmodplug.so")

    def build(self, tier):
        super().build(tier)
        key = ("plugin", self.variant)
        if key in _built:
            return
        cmd = ["cargo"] + (["+" + self.toolchain] if self.toolchain else []) + ["build", "--offline", "-q", "-p", "modplug", "--release", "--target-dir", self.plug_target]
        env = dict(CARGO_ENV)
        if self.rustflags:
            env["RUSTFLAGS"] = self.rustflags
        t0 = time.time()
        p = subprocess.run(cmd, cwd=SIM, env=env, stdout=subprocess.PIPE, stderr=subprocess.STDOUT, text=True)
        if p.returncode != 0:
            raise HarnessError("build of the plugin module (%s) failed:\n%s" % (self.variant, "\n".join(p.stdout.splitlines()[-30:])))
        _built.add(key)
        log("# built plugin module modplug [%s] in %.1fs" % (self.variant, time.time() - t0))

    def env(self):
        e = dict(os.environ)
        e.update({"SIM_PLUGIN": self.plugin_path(), "SIM_FOCUS": "life"})
        return e


def parse_plan_text(txt):
    plan = {"engine": "", "cfg": {}, "steps": []}
    for line in txt.replace(";", "\n").splitlines():
        f = line.split()
        if not f:
            continue
        if f[0] == "engine":
            plan["engine"] = f[1]
        elif f[0] == "cfg":
            plan["cfg"][f[1]] = int(f[2])
        elif f[0] == "s":
            plan["steps"].append([int(f[1]), f[2]] + [int(x) for x in f[3:]])
    return plan


def plan_to_text(plan):
    lines = ["engine %s" % plan["engine"]]
    for k in sorted(plan["cfg"]):
        lines.append("cfg %s %d" % (k, plan["cfg"][k]))
    for s in plan["steps"]:
        lines.append("s %d %s%s" % (s[0], s[1], "".join(" %d" % x for x in s[2:])))
    return "\n".join(lines) + "\n"


def step_str(s):
    return "t%d %s%s" % (s[0], s[1], "".join(" %d" % x for x in s[2:]))


# --------------------------------------------------------------------------------------------
# minimisation
# --------------------------------------------------------------------------------------------


def minimise(job, plan, target_class, tier, budget_s=120):
    """ddmin over steps, then simplifications; a candidate is kept only if it fails with the same class."""
    t_end = time.time() + budget_s
    tries = [0]

    def fails(cand):
        if time.time() > t_end:
            return False
        tries[0] += 1
        r = job.exec_plan(cand, tier)
        return r["status"] in ("fail", "crash") and r["class"] == target_class

    cur = json.loads(json.dumps(plan))
    steps = cur["steps"]
    # 1. ddmin on the step list
    n = 2
    while len(steps) >= 2 and time.time() < t_end:
        chunk = max(1, len(steps) // n)
        reduced = False
        i = 0
        while i < len(steps):
            cand_steps = steps[:i] + steps[i + chunk:]
            cand = dict(cur, steps=cand_steps)
            if cand_steps != steps and fails(cand):
                steps = cand_steps
                cur = cand
                n = max(n - 1, 2)
                reduced = True
            else:
                i += chunk
        if not reduced:
            if chunk == 1:
                break
            n = min(len(steps), n * 2)
    cur["steps"] = steps
    # 2. single thread
    if any(s[0] != 0 for s in steps):
        cand = dict(cur, steps=[[0] + s[1:] for s in steps])
        if fails(cand):
            cur = cand
            steps = cur["steps"]
    # 3. shrink integer arguments towards 0
    for si in range(len(steps)):
        for ai in range(2, len(steps[si])):
            v = steps[si][ai]
            for nv in (0, 1, v // 2):
                if nv == v or abs(nv) >= abs(v):
                    continue
                cand_steps = [list(s) for s in steps]
                cand_steps[si][ai] = nv
                cand = dict(cur, steps=cand_steps)
                if fails(cand):
                    steps = cand_steps
                    cur = cand
                    break
    # 4. simplify cfg values towards small
    for k in sorted(cur["cfg"]):
        v = cur["cfg"][k]
        for nv in (0, 1):
            if nv >= v:
                continue
            cand = dict(cur, cfg=dict(cur["cfg"], **{k: nv}))
            if fails(cand):
                cur = cand
                break
    cur["steps"] = steps
    return cur, tries[0]


# --------------------------------------------------------------------------------------------
# known findings
# --------------------------------------------------------------------------------------------


def load_known():
    if not os.path.exists(KNOWN_FILE):
        return []
    with open(KNOWN_FILE) as f:
        return json.load(f)


def known_match(known, prop, cls, site):
    for e in known:
        if e.get("status") == "known" and e.get("property") == prop and e.get("class") == cls:
            s = e.get("site")
            if s is None or s == site or (e.get("site_prefix") and site.startswith(e["site_prefix"])):
                return e
    return None


# --------------------------------------------------------------------------------------------
# running a simulation check
# --------------------------------------------------------------------------------------------


def union_count(paths):
    a = array("Q")
    for p in paths:
        try:
            sz = os.path.getsize(p)
            with open(p, "rb") as f:
                a.fromfile(f, sz // 8)
        except OSError:
            pass
    if len(a) == 0:
        return 0
    return len(set(a))


def run_job(prop, job, tier, seed, report, spec=None):
    """Runs one job; appends to `report`; returns list of violations (dicts with replay info)."""
    n = int(job.runs[tier])
    if n <= 0:
        return []
    job.build(tier)
    t0 = time.time()
    nchunks = max(1, min(WORKERS * 4, n // 50))
    bounds = [(n * i // nchunks, n * (i + 1) // nchunks) for i in range(nchunks)]
    tmpd = tempfile.mkdtemp(prefix="cglue-verif-hashes-")
    results = []
    try:
        with ThreadPoolExecutor(max_workers=WORKERS) as ex:
            futs = [ex.submit(run_chunk, job, seed, lo, hi, tier, os.path.join(tmpd, "c%d" % i)) for i, (lo, hi) in enumerate(bounds) if hi > lo]
            for f in futs:
                results.append(f.result())
        files = os.listdir(tmpd)
        distinct_plans = union_count([os.path.join(tmpd, f) for f in files if f.endswith(".plans")])
        distinct_states = union_count([os.path.join(tmpd, f) for f in files if f.endswith(".states")])
        distinct_pairs = union_count([os.path.join(tmpd, f) for f in files if f.endswith(".pairs")])
        distinct_cells = union_count([os.path.join(tmpd, f) for f in files if f.endswith(".cells")])
    finally:
        shutil.rmtree(tmpd, ignore_errors=True)
    wall = time.time() - t0
    stats = {}
    fails = []
    findings = {}
    ok = 0
    for r in results:
        ok += r.ok
        fails += r.fails
        for k, v in r.stats.items():
            stats[k] = stats.get(k, 0) + v
        for k, v in r.findings.items():
            e = findings.setdefault(k, [0, v[1]])
            e[0] += v[0]
            e[1] = min(e[1], v[1])
    fails.sort(key=lambda d: d["run"])
    sample_runs = sorted(set([0, n // 2, n - 1]))
    samples = []
    for r in sample_runs:
        pl = job.gen_plan(seed, r, tier)
        samples.append({"engine": job.engine, "run": r, "cfg": pl["cfg"], "steps": [step_str(s) for s in pl["steps"]]})
    report["jobs"].append({
        "engine": job.label, "binary": job.binname, "build": "release" if job.release(tier) else "debug",
        "runs": n, "ok": ok, "failed": len(fails), "wall_s": round(wall, 2),
        "runs_per_hour": int(n / wall * 3600) if wall > 0 else 0,
        "steps": stats.get("steps", 0), "steps_per_hour": int(stats.get("steps", 0) / wall * 3600) if wall > 0 else 0,
        "distinct_nontrivial_plans": distinct_plans, "distinct_model_states": distinct_states,
        "distinct_state_op_pairs": distinct_pairs, "matrix_cells_hit": distinct_cells,
        "faults_fired": {k[6:]: v for k, v in sorted(stats.items()) if k.startswith("fault.")},
        "ops": {k[3:]: v for k, v in sorted(stats.items()) if k.startswith("op.")},
        "probes": {k[6:]: v for k, v in sorted(stats.items()) if k.startswith("probe.")},
        "other_counters": {k: v for k, v in sorted(stats.items()) if not k.startswith(("fault.", "op.", "probe."))},
    })
    report["samples"] += samples
    report["evaluations"] += n
    report["distinct_nontrivial"] += distinct_plans

    known = load_known()
    violations = []
    accept = spec.get("accept") if spec else None
    # a run that fails because the harness could not do its work decides nothing: never a pass
    hf = [d for d in fails if d["class"].startswith("harness.")]
    if hf:
        raise HarnessError("%d run(s) of %s stopped with %s at %s: %s" % (len(hf), job.label, hf[0]["class"], hf[0]["site"], hf[0]["msg"][:300]))
    if n > 0 and ok == 0:
        own = [d for d in fails if not accept or accept(job.label, d["class"], d["site"], d["msg"])]
        if not own:
            raise HarnessError("no run of %s completed (%d failed with classes that belong to other properties: %s): nothing was explored" % (
                job.label, len(fails), sorted({d["class"] for d in fails})[:5]))
    if accept:
        kept = []
        for d in fails:
            if accept(job.label, d["class"], d["site"], d["msg"]):
                kept.append(d)
            else:
                key = (d["class"], d["site"])
                report.setdefault("other_property_deviations", {})
                e = report["other_property_deviations"].setdefault("%s @ %s" % key, {"count": 0, "first_run": d["run"], "engine": job.label})
                e["count"] += 1
        if len(kept) != len(fails):
            log("# %d failing run(s) of %s show deviations that belong to other properties (not reported here): %s" % (
                len(fails) - len(kept), job.label, sorted(report["other_property_deviations"])[:6]))
        fails = kept
        findings = {k: v for k, v in findings.items() if accept(job.label, k[0], k[1], "")}
    # findings reported by the engine itself (run continues): decided by the committed file
    for (cls, site), (cnt, first) in sorted(findings.items()):
        e = known_match(known, prop, cls, site)
        if e:
            report["known_findings"].append({"class": cls, "site": site, "occurrences": cnt})
            log("KNOWN-FINDING: property=%s %s at %s (%d occurrence(s) in this run; %s)" % (prop, cls, site, cnt, e.get("what", "")))
        else:
            violations.append({"job": job, "run": first, "class": cls, "site": site, "step": -1, "msg": "engine-reported deviation not listed in known_findings.json", "finding": True})
    seen_classes = set()
    for d in fails:
        e = known_match(known, prop, d["class"], d["site"])
        if e:
            key = (d["class"], d["site"])
            if key not in seen_classes:
                seen_classes.add(key)
                report["known_findings"].append({"class": d["class"], "site": d["site"], "first_run": d["run"]})
                log("KNOWN-FINDING: property=%s %s at %s (first at run %d; %s)" % (prop, d["class"], d["site"], d["run"], e.get("what", "")))
            continue
        key = (d["class"], d["site"])
        if key in seen_classes:
            continue
        seen_classes.add(key)
        violations.append(dict(d, job=job))
    return violations


def run_range(job, tier, seed, lo, hi, timeout=300):
    """Re-runs runs [lo,hi) in one worker process (same process history as the original worker).
    Returns the class of the failure of the last run, or None."""
    cmd = job.cmd_prefix(tier) + [job.engine, "run", "--seed", str(seed), "--from", str(lo), "--to", str(hi)] + job.extra_args
    if tier == "thorough":
        cmd.append("--thorough")
    try:
        p = subprocess.run(cmd, stdout=subprocess.PIPE, stderr=subprocess.PIPE, text=True, env=job.env(), timeout=timeout, errors="replace")
    except subprocess.TimeoutExpired:
        return "crash.hang"
    last_run, done = None, set()
    cls = None
    for line in p.stdout.splitlines():
        if line.startswith("RUN "):
            last_run = int(line[4:])
        elif line.startswith("OK "):
            done.add(int(line.split(" ")[1]))
        elif line.startswith("FAIL "):
            try:
                d = parse_fail(line)
            except (IndexError, ValueError):
                continue
            done.add(d["run"])
            if d["run"] == hi - 1:
                cls = d["class"]
    if cls is None and last_run is not None and last_run not in done:
        sig = -p.returncode if p.returncode and p.returncode < 0 else p.returncode
        try:
            sig = signal.Signals(sig).name
        except Exception:
            pass
        cls = "crash.%s" % sig
    return cls


def write_replay(prop, job, tier, seed, run, plan, viol, extra=None):
    os.makedirs(os.path.join(REPLAYS, prop), exist_ok=True)
    path = os.path.join(REPLAYS, prop, "%s-seed%d-run%d.json" % (job.label, seed, run))
    doc = {
        "property": prop, "engine": job.engine, "package": job.package, "label": job.label, "tier": tier, "seed": seed, "run": run,
        "cfg": plan["cfg"], "steps": plan["steps"],
        "violation": {"class": viol["class"], "step": viol.get("step", -1), "site": viol.get("site", ""), "message": viol.get("msg", "")},
        "extra_args": job.extra_args,
    }
    if extra:
        doc.update(extra)
    with open(path, "w") as f:
        json.dump(doc, f, indent=1, sort_keys=True)
        f.write("\n")
    return path


def report_violation(prop, v, tier, seed, accept=None):
    """Minimise, confirm in a fresh process, write the replay file, print the VIOLATION line."""
    job = v["job"]
    plan = job.gen_plan(seed, v["run"], tier)
    target = v["class"]
    first = job.exec_plan(plan, tier)
    note = None
    if v.get("finding"):
        # engine-reported deviation: the run does not fail, the replay is the full plan
        path = write_replay(prop, job, tier, seed, v["run"], plan, v, {"minimised": False})
        log("VIOLATION property=%s replay=%s" % (prop, path))
        log("#   class=%s site=%s: %s" % (v["class"], v["site"], v["msg"]))
        return path
    if not (first["status"] in ("fail", "crash") and first["class"] == target):
        # the failure depends on what the worker process ran before (e.g. heap state after
        # undefined behaviour): replay the worker's range of runs instead of the single plan
        lo = v.get("proc_lo")
        if lo is not None:
            got = run_range(job, tier, seed, lo, v["run"] + 1)
            recurred = got is not None
            if not recurred and target == "crash.hang":
                # the one kind of failure the machine itself can produce (a stalled worker under load):
                # a time limit exceeded once, with neither the plan nor the range exceeding it again
                log("# a worker of %s exceeded its time limit around run %d once; neither the plan nor runs %d..%d did so again when replayed; not reported" % (job.label, v["run"], lo, v["run"]))
                return None
            if not recurred:
                # seen once, in a worker, and not again: still a failure of the property's check (a
                # state-dependent one - uninitialised reads, address reuse); never dropped
                got = target
            if True:
                os.makedirs(os.path.join(REPLAYS, prop), exist_ok=True)
                path = os.path.join(REPLAYS, prop, "%s-seed%d-runs%d-%d.json" % (job.label, seed, lo, v["run"]))
                with open(path, "w") as f:
                    json.dump({"kind": "range", "property": prop, "package": job.package, "engine": job.engine, "label": job.label, "tier": tier, "seed": seed,
                               "from": lo, "to": v["run"] + 1, "violation": {"class": got, "site": "process", "message": v.get("msg", "")},
                               "recurred_when_replayed": recurred,
                               "note": ("the single plan of run %d does not fail in a fresh process; the worker's runs %d..%d, replayed in one process, do" % (v["run"], lo, v["run"])) if recurred else
                                       ("seen once, in the worker process that ran %d..%d; neither the single plan nor that range failed again when replayed: a failure that depends on process state (uninitialised reads, address reuse)" % (lo, v["run"]))}, f, indent=1, sort_keys=True)
                    f.write("\n")
                log("VIOLATION property=%s replay=%s" % (prop, path))
                if recurred:
                    log("#   class=%s: worker process fails in run %d after runs %d..%d (single plan alone does not reproduce)" % (got, v["run"], lo, v["run"] - 1))
                else:
                    log("#   class=%s site=%s: %s [seen once in the worker that ran %d..%d; did not recur when replayed]" % (got, v.get("site"), v.get("msg", "")[:300], lo, v["run"]))
                return path
        # (no process history known: report the plan as it is)
        note = "full plan did not reproduce in a fresh process (got %s %s)" % (first["status"], first.get("class"))
        path = write_replay(prop, job, tier, seed, v["run"], plan, v, {"minimised": False, "note": note, "reproduced_in_fresh_process": False})
        log("VIOLATION property=%s replay=%s" % (prop, path))
        log("#   class=%s site=%s: %s (%s)" % (v["class"], v.get("site"), v.get("msg", ""), note))
        return path
    else:
        mini, tries = minimise(job, plan, target, tier)
    final = job.exec_plan(mini, tier)
    vi = dict(v)
    if final["status"] in ("fail", "crash"):
        vi.update({"class": final["class"], "step": final["step"], "site": final["site"], "msg": final["msg"]})
        if accept and not accept(job.label, final["class"], final["site"], final["msg"]):
            log("# a failing run of %s minimised to a deviation that belongs to another property (%s at %s); not reported here" % (job.label, final["class"], final["site"]))
            return None
    path = write_replay(prop, job, tier, seed, v["run"], mini, vi, {
        "minimised": tries > 0, "minimiser_executions": tries, "original_steps": len(plan["steps"]), "note": note,
        "reproduced_in_fresh_process": final["status"] in ("fail", "crash") and final["class"] == target,
    })
    log("VIOLATION property=%s replay=%s" % (prop, path))
    log("#   class=%s step=%s site=%s" % (vi["class"], vi.get("step"), vi.get("site")))
    log("#   %s" % vi.get("msg", ""))
    log("#   minimised %d -> %d steps with %d executions%s" % (len(plan["steps"]), len(mini["steps"]), tries, ("; " + note) if note else ""))
    for s in mini["steps"]:
        log("#     " + step_str(s))
    return path


def write_evidence(prop, tier, seed, report, wall, nviol, spec):
    os.makedirs(EVID, exist_ok=True)
    cov = {
        "evaluations": report["evaluations"],
        "distinct_nontrivial": report["distinct_nontrivial"],
        "rule": spec.get("rule", "one evaluation = one generated plan executed to quiescence against the real code with oracles after every step; "
                         "distinct = distinct plan hash (union over all workers); non-trivial = at least 2 effective (non-no-op) steps of which at least 1 mutates the model"),
        "samples": report["samples"][:8],
        "jobs": report["jobs"],
        "simulated_time": "not applicable: cglue has no clocks or timers; duration is counted in logical steps",
        "known_findings_seen": report["known_findings"],
        "real_components": spec.get("real", []),
        "stubbed_components": spec.get("stub", []),
    }
    cov.update(report.get("extra", {}))
    if report.get("other_property_deviations"):
        cov["other_property_deviations"] = report["other_property_deviations"]
    doc = {
        "property_id": prop, "tier": tier, "seed": seed, "level": spec.get("level", "exploration"),
        "coverage": cov, "assumptions": spec.get("assumptions", []), "wall_s": round(wall, 2), "violations": nviol,
    }
    path = os.path.join(EVID, "%s.json" % prop)
    tmp = path + ".tmp"
    with open(tmp, "w") as f:
        json.dump(doc, f, indent=1, sort_keys=True)
        f.write("\n")
    os.replace(tmp, path)


def run_property(prop, tier, seed):
    from properties import PROPS
    if prop not in PROPS:
        raise HarnessError("no check registered for %s" % prop)
    spec = PROPS[prop]
    t0 = time.time()
    report = {"jobs": [], "samples": [], "evaluations": 0, "distinct_nontrivial": 0, "known_findings": [], "extra": {}}
    violations = []
    deferred = None
    for extra in spec.get("extra_phases", []):
        violations += extra(prop, tier, seed, report)
    for job in spec["jobs"]:
        try:
            violations += run_job(prop, job, tier, seed, report, spec)
        except CorpusRejected as e:
            # legal programs of the quantifier's domain that the generator no longer turns into
            # compiling code: nothing about their behaviour can hold
            os.makedirs(os.path.join(REPLAYS, prop), exist_ok=True)
            path = os.path.join(REPLAYS, prop, "build-%s.json" % e.package)
            with open(path, "w") as f:
                json.dump({"kind": "build", "property": prop, "tier": tier, "package": e.package, "job": job.label,
                           "violation": {"class": "build.corpus_rejected", "site": e.locations[0] if e.locations else e.package, "message": e.message},
                           "locations": e.locations}, f, indent=1, sort_keys=True)
                f.write("\n")
            violations.append({"replay": path, "class": "build.corpus_rejected", "msg": "the corpus of legal traits/groups/cast requests no longer compiles against /repo (every error is in %s): %s" % (", ".join(e.locations[:3]), e.message[:300])})
            break
        except HarnessError as e:
            # an engine that no longer builds must not hide what the other engines found
            deferred = e
            break
    if deferred is not None and not violations:
        raise deferred
    if deferred is not None:
        log("# note: %s" % str(deferred).splitlines()[0])
    paths = []
    for v in violations[:12]:
        if len(paths) >= 3:
            break
        if "replay" in v:
            log("VIOLATION property=%s replay=%s" % (prop, v["replay"]))
            log("#   class=%s: %s" % (v.get("class"), v.get("msg")))
            paths.append(v["replay"])
        else:
            pth = report_violation(prop, v, tier, seed, spec.get("accept"))
            if pth:
                paths.append(pth)
    wall = time.time() - t0
    nviol = len(paths) if violations else 0
    write_evidence(prop, tier, seed, report, wall, nviol, spec)
    if nviol:
        return 1
    log("# %s %s: %d runs, %d distinct non-trivial plans, no violation, %.1fs" % (prop, tier, report["evaluations"], report["distinct_nontrivial"], wall))
    return 0


def replay(prop, path):
    from properties import PROPS, job_for
    with open(path) as f:
        doc = json.load(f)
    if doc.get("kind") == "range":
        job = job_for(doc["package"], doc["engine"], doc.get("label"), None)
        job.build(doc.get("tier", "quick"))
        got = run_range(job, doc.get("tier", "quick"), doc["seed"], doc["from"], doc["to"])
        if got is not None:
            log("VIOLATION property=%s replay=%s" % (prop, path))
            log("#   class=%s in run %d of the range" % (got, doc["to"] - 1))
            return 1
        log("# replay did not fail: the recorded violation (%s) does not occur on this tree" % doc["violation"]["class"])
        return 0
    if doc.get("kind") == "build":
        from properties import ALL_JOBS
        job = [j for j in ALL_JOBS if j.label == doc.get("job")][0]
        try:
            job.build(doc.get("tier", "quick"))
        except CorpusRejected as e:
            log("VIOLATION property=%s replay=%s" % (prop, path))
            log("#   class=build.corpus_rejected: %s" % e.message[:300])
            return 1
        log("# replay did not fail: the corpus compiles against this tree")
        return 0
    if doc.get("kind") and doc["kind"] != "plan":
        from properties import replay_special
        return replay_special(prop, doc, path)
    job = job_for(doc["package"], doc["engine"], doc.get("label"), doc.get("extra_args"))
    tier = doc.get("tier", "quick")
    job.build(tier)
    plan = {"engine": doc["engine"], "cfg": doc["cfg"], "steps": doc["steps"]}
    r = job.exec_plan(plan, tier, want_log=True)
    for l in r["log"]:
        log("#  " + l)
    want = doc["violation"]["class"]
    known = load_known()
    if doc.get("minimised") is False and r["status"] == "ok":
        for (cls, site) in r["findings"]:
            if cls == want and not known_match(known, prop, cls, site):
                log("VIOLATION property=%s replay=%s" % (prop, path))
                return 1
    if r["status"] in ("fail", "crash"):
        if known_match(known, prop, r["class"], r.get("site", "")):
            log("KNOWN-FINDING: property=%s %s at %s" % (prop, r["class"], r.get("site")))
            return 0
        log("VIOLATION property=%s replay=%s" % (prop, path))
        log("#   class=%s step=%s site=%s (recorded class: %s)" % (r["class"], r["step"], r["site"], want))
        log("#   %s" % r["msg"])
        return 1
    log("# replay did not fail: the recorded violation (%s) does not occur on this tree" % want)
    return 0


def selftest_determinism(engines=None, seeds=200):
    """Every engine: `seeds` runs × 2 executions at several worker counts; event-log digests must agree."""
    from properties import ALL_JOBS
    bad = 0
    for job in ALL_JOBS:
        if engines and job.label not in engines:
            continue
        job.build("quick")
        ref = None
        for (label, nchunks) in (("1 process", 1), ("4 processes", 4), ("16 processes", 16), ("16 processes, again", 16)):
            bounds = [(seeds * i // nchunks, seeds * (i + 1) // nchunks) for i in range(nchunks)]
            with ThreadPoolExecutor(max_workers=nchunks) as ex:
                rs = list(ex.map(lambda b: run_chunk(job, 1, b[0], b[1], "quick", None, True), bounds))
            hashes = {}
            for r in rs:
                hashes.update(r.loghashes)
                for d in r.fails:
                    hashes[d["run"]] = ("FAIL", d["class"] + "@" + str(d["step"]))
            if ref is None:
                ref = hashes
            else:
                diff = [k for k in sorted(set(ref) | set(hashes)) if ref.get(k) != hashes.get(k)]
                if diff:
                    bad += 1
                    log("NONDETERMINISM engine=%s configuration=%s differing runs=%s" % (job.label, label, diff[:10]))
        log("# determinism %s: %d runs × 4 configurations %s" % (job.label, seeds, "DIFFER" if bad else "identical"))
    if not engines or "wrapsim" in engines:
        import gensim
        bad += gensim.selftest_wrappers()
    return 2 if bad else 0


def main(argv):
    try:
        if not argv or argv[0] in ("-h", "--help"):
            print(__doc__ or "see ./check")
            return 0
        if argv[0] == "--build":
            from properties import build_all
            build_all()
            return 0
        if argv[0] == "--selftest":
            what = argv[1] if len(argv) > 1 else "determinism"
            engines = None
            if "--engines" in argv:
                engines = argv[argv.index("--engines") + 1].split(",")
            if what == "anchor":
                import anchor_pregen
                return 2 if anchor_pregen.main() else 0
            if what == "determinism":
                n = int(argv[argv.index("--runs") + 1]) if "--runs" in argv else 200
                return selftest_determinism(engines, n)
            raise HarnessError("unknown selftest " + what)
        prop = argv[0]
        tier = os.environ.get("VERIF_TIER", "quick")
        seed = int(os.environ.get("VERIF_SEED", "1"))
        rp = None
        i = 1
        while i < len(argv):
            if argv[i] == "--tier":
                tier = argv[i + 1]
                i += 2
            elif argv[i] == "--seed":
                seed = int(argv[i + 1])
                i += 2
            elif argv[i] == "--replay":
                rp = argv[i + 1]
                i += 2
            else:
                raise HarnessError("unknown argument " + argv[i])
        if tier not in ("quick", "thorough"):
            raise HarnessError("tier must be quick or thorough")
        if rp:
            return replay(prop, rp)
        return run_property(prop, tier, seed)
    except HarnessError as e:
        print("HARNESS-ERROR: %s" % e, file=sys.stderr, flush=True)
        return 2
    except Exception:
        import traceback
        traceback.print_exc()
        print("HARNESS-ERROR: internal error in the driver", file=sys.stderr, flush=True)
        return 2
