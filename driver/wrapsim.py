"""wrapsim: simulation of a C program that uses the wrappers cglue-bindgen generates (C17).

One run = (header model, tool configuration, process hash seed, plan). The real cglue-bindgen turns
the model's cbindgen-shaped header into the processed header; a C translation unit generated from
the plan includes it and plays both foreign parties around the generated wrappers:

  * the *plugin side*: one mock function per vtable entry of every object/group instantiation. It
    logs which entry of which vtable ran, which container it was handed (by address for borrowed
    receivers, by content for consuming ones) and every argument; consuming entries then do what
    the Rust side does with an owned container - release the boxed instance and the context - and
    log whether the library is still loaded afterwards;
  * the *host side*: a straight-line sequence of wrapper calls, consuming calls and drop helpers
    on objects that share reference-counted contexts, with a state line (context counts, instance
    destructor counts) after every step.

The expected log is computed from the plan by a reference model that never looks at the generated
wrappers; any difference is a violation. Wrapper names are the documented naming rules
(cglue-bindgen/src/codegen/c.rs, "Wrapper rules").
"""
import os
import shutil
import subprocess
import tempfile

import hdrgen

CTX_PREFIX = {"CArc_c_void": "arc", "NoContext": ""}
CONFIG_CTX = {"CArc_c_void": "Arc", "NoContext": ""}


# ---------------------------------------------------------------------------------------------
# the documented naming rules
# ---------------------------------------------------------------------------------------------

def wrapper_table(model, config):
    """For every object type: {(vtbl field, fname): wrapper name}, the drop helper name, and the
    list of entries that have no name of their own (two entries of one object whose documented
    names coincide)."""
    config = config or {}
    types = hdrgen.object_types(model)
    # traits per function name, over single-trait objects
    owners = {}
    for o in types:
        if o["kind"] == "obj":
            for f in o["vtbls"][0]["funcs"]:
                owners.setdefault(f[0], set()).add(o["name"])
    fp = config.get("function_prefix")
    fp = (fp + "_") if fp else ""
    out = []
    # the tool de-duplicates wrappers by name over the whole header (objects first, then groups, in
    # header order): a borrowed-receiver wrapper is shared by all instantiations of its object
    # (that is the documented "generic wrapper"), anything else that lands on a taken name is lost
    taken = {}
    order = [i for i, o in enumerate(types) if o["kind"] == "obj"] + [i for i, o in enumerate(types) if o["kind"] != "obj"]
    out = [None] * len(types)
    for oi in order:
        o = types[oi]
        ctxp = CTX_PREFIX.get(o["ctx"], o["ctx"].lower())
        cfg_ctx = CONFIG_CTX.get(o["ctx"], o["ctx"])
        match = config.get("default_context") == cfg_ctx and config.get("default_container") == o["cont"]
        ctx_part = "" if (ctxp == "" or match) else ctxp + "_"
        cont_part = "" if match else o["cont"].lower() + "_"
        names = {}
        unnamed = []

        def typ(fname):
            if o["kind"] == "group":
                return o["name"].lower() + "_"
            if fname == "drop" or len(owners.get(fname, ())) > 1:
                return o["name"].lower() + "_"
            return ""

        for v in o["vtbls"]:
            for f in v["funcs"]:
                fname, kind = f[0], f[1]
                if kind == "own":
                    n = fp + typ(fname) + ctx_part + cont_part + fname
                else:
                    n = fp + typ(fname) + fname
                ident = (o["kind"], o["name"], v["field"], fname) + ((o["cont"], o["ctx"]) if kind == "own" else ())
                if n in taken and taken[n] != ident:
                    unnamed.append((v["field"], fname, taken[n]))
                    continue
                taken[n] = ident
                names[(v["field"], fname)] = n
        drop = fp + typ("drop") + ctx_part + cont_part + "drop"
        out[oi] = {"names": names, "drop": drop, "unnamed": unnamed}
    return types, out


# ---------------------------------------------------------------------------------------------
# plans
# ---------------------------------------------------------------------------------------------

def gen_plan(model, seed):
    return gen_plan_types(hdrgen.object_types(model), seed)


def gen_plan_types(types, seed):
    r = hdrgen.Rng(seed * 2654435761 + 99)
    nobj = 1 + r.below(4)
    steps = []
    live = []
    next_inst = 0
    next_obj = 0
    narcs = 1 + r.below(2)
    for _ in range(nobj):
        k = r.below(len(types))
        o = types[k]
        ctx = None
        if o["ctx"] == "CArc_c_void":
            ctx = r.below(narcs)
        elif o["ctx"] != "NoContext":
            ctx = 1000 + r.below(1000)
        steps.append({"op": "create", "obj": next_obj, "type": k, "inst": next_inst, "ctx": ctx})
        live.append((next_obj, k, ctx))
        next_obj += 1
        next_inst += 1
    for _ in range(2 + r.below(9)):
        if not live:
            break
        li = r.below(len(live))
        on, k, ctx = live[li]
        o = types[k]
        entries = [(v["field"], f) for v in o["vtbls"] for f in v["funcs"]]
        roll = r.below(10)
        if roll == 0:
            steps.append({"op": "drop", "obj": on})
            live.pop(li)
            continue
        if o["cont"] != "Box":
            # cloning is a thing of boxed instances (the Clone vtable of a borrowed group is empty)
            entries = [e for e in entries if e[0] != "vtbl_clone"] or entries
        field, f = r.pick(entries)
        if f[1] == "own" and r.chance(1, 2):
            # bias towards borrowed calls: consuming ones end the object's life
            field, f = r.pick(entries)
        if field == "vtbl_clone" and o["cont"] != "Box":
            continue
        args = [gen_arg(r, a[0]) for a in f[2]]
        st = {"op": "call", "obj": on, "field": field, "fname": f[0], "args": args, "ret": gen_ret(r, f[3])}
        if f[0] == "clone" and field == "vtbl_clone":
            st["new_obj"] = next_obj
            st["new_inst"] = next_inst
            live.append((next_obj, k, ctx))
            next_obj += 1
            next_inst += 1
        steps.append(st)
        if f[1] == "own":
            live.pop(li)
    for on, k, ctx in live:
        steps.append({"op": "drop", "obj": on})
    return {"steps": steps, "arcs": narcs, "insts": next_inst}


def gen_arg(r, ty):
    if ty == "bool":
        return r.below(2)
    if ty == "uint8_t":
        return r.below(256)
    if ty == "int32_t":
        return r.below(1 << 31) - (1 << 30)
    if ty in ("uint64_t", "uintptr_t"):
        return r.next() if r.chance(1, 2) else r.below(1000)
    if ty == "struct ArgPair":
        return [r.below(1 << 32), r.next()]
    if ty == "struct CSliceRef_u8":
        off = r.below(32)
        return [off, r.below(33 - off)]
    if ty in ("const uint8_t *", "void *", hdrgen.OUT_SLOT):
        return r.below(64)
    if ty.startswith("struct Callback_c_void__"):
        return [r.below(64), r.below(2)]
    raise ValueError(ty)


def gen_ret(r, ty):
    if ty == "void" or (ty.startswith("struct ") and ty != "struct ArgPair") or "Container<" in ty:
        return None
    return gen_arg(r, ty)


# ---------------------------------------------------------------------------------------------
# C text
# ---------------------------------------------------------------------------------------------

def c_value(ty, v):
    if ty == "bool":
        return "(bool)%d" % v
    if ty == "int32_t":
        return "(int32_t)(%d)" % v
    if ty in ("uint8_t", "uint64_t", "uintptr_t"):
        return "(%s)%dull" % (ty, v)
    if ty == "struct ArgPair":
        return "(struct ArgPair){ %duL, %dull }" % (v[0], v[1])
    if ty == "struct CSliceRef_u8":
        return "(struct CSliceRef_u8){ BUF + %d, %d }" % (v[0], v[1])
    if ty == "const uint8_t *":
        return "(const uint8_t *)(BUF + %d)" % v
    if ty == "void *":
        return "(void *)(BUF + %d)" % v
    if ty == hdrgen.OUT_SLOT:
        return "(%s)(void *)(BUF + %d)" % (ty, v)
    if ty.startswith("struct Callback_c_void__"):
        return "(%s){ (void *)(BUF + %d), %s }" % (ty, v[0], "cb_one" if v[1] else "cb_zero")
    raise ValueError(ty)


def text_value(ty, v):
    """How the reference model spells a value in the log."""
    if ty == "struct ArgPair":
        return "pair(%d,%d)" % (v[0], v[1])
    if ty == "struct CSliceRef_u8":
        return "slice(+%d,%d)" % (v[0], v[1])
    if ty in ("const uint8_t *", "void *", hdrgen.OUT_SLOT):
        return "ptr(+%d)" % v
    if ty.startswith("struct Callback_c_void__"):
        return "cb(+%d,%d)" % (v[0], v[1])
    return "%d" % v


def c_print(ty, expr):
    """C statements that print expr in the same spelling."""
    if ty == "struct ArgPair":
        return 'printf("pair(%%llu,%%llu)", (unsigned long long)(%s).a, (unsigned long long)(%s).b);' % (expr, expr)
    if ty == "struct CSliceRef_u8":
        return 'printf("slice(+%%ld,%%llu)", (long)((%s).data - BUF), (unsigned long long)(%s).len);' % (expr, expr)
    if ty in ("const uint8_t *", "void *", hdrgen.OUT_SLOT):
        return 'printf("ptr(+%%ld)", (long)((const uint8_t *)(%s) - BUF));' % expr
    if ty.startswith("struct Callback_c_void__"):
        return 'printf("cb(+%%ld,%%d)", (long)((const uint8_t *)(%s).context - BUF), (%s).func == cb_one ? 1 : ((%s).func == cb_zero ? 0 : -1));' % (expr, expr, expr)
    if ty == "int32_t":
        return 'printf("%%lld", (long long)(%s));' % expr
    return 'printf("%%llu", (unsigned long long)(%s));' % expr


def gen_driver(model, config, plan, header_path):
    types, table = wrapper_table(model, config)
    cb = model.get("callback_payload", "ArgPair")
    cbty = hdrgen.CB_PAYLOAD_CTYPE[cb]
    L = []
    w = L.append
    w('#include <stdio.h>\n#include <string.h>\n#include "%s"\n' % header_path)
    w("static uint8_t BUF[128];")
    w("struct arcin { long count; uint64_t id; };")
    w("static struct arcin ARCS[%d];" % max(1, plan["arcs"]))
    # (an instance's destructor is library code: the context that keeps the library loaded must
    # still be held when it runs)
    w("struct inst { uint64_t id; int drops; int arc; };")
    w("static struct inst INST[%d];" % max(1, plan["insts"]))
    w('static void inst_drop(void *p) { struct inst *i = (struct inst *)p; i->drops++; if (i->arc > 0 && ARCS[i->arc - 1].count <= 0) printf("INSTANCE inst=%llu destroyed after the LIBRARY was released\\n", (unsigned long long)i->id); }')
    w("static const void *arc_clone(const void *p) { ((struct arcin *)p)->count++; return p; }")
    w("static void arc_drop(const void *p) { ((struct arcin *)p)->count--; }")
    w("static bool cb_zero(void *c, %s v) { (void)c; (void)v; return 0; }" % cbty)
    w("static bool cb_one(void *c, %s v) { (void)c; (void)v; return 1; }" % cbty)
    w("static const void *EXPECT_CONT;")
    w("static void state(void) {\n    int i; printf(\"STATE arcs=\");\n    for (i = 0; i < %d; i++) printf(\"%%ld,\", ARCS[i].count);\n    printf(\" drops=\");\n    for (i = 0; i < %d; i++) printf(\"%%d,\", INST[i].drops);\n    printf(\"\\n\");\n}" % (plan["arcs"], plan["insts"]))
    # return slots
    ret_types = sorted({f[3] for o in types for v in o["vtbls"] for f in v["funcs"] if f[3] != "void" and not (f[0] == "clone" and v["field"] == "vtbl_clone")})
    for i, rt in enumerate(ret_types):
        w("static %s%sRETV_%d;" % (rt, "" if rt.endswith("*") else " ", i))
    w("static uint64_t CLONE_INST;")
    rslot = {rt: "RETV_%d" % i for i, rt in enumerate(ret_types)}
    # mocks and vtables
    for k, o in enumerate(types):
        cn = "struct " + o["container"]
        inst_of_ptr = "((const struct inst *)cont->instance.instance)" if o["cont"] == "Box" else "((const struct inst *)cont->instance)"
        inst_of_val = "((struct inst *)cont.instance.instance)" if o["cont"] == "Box" else "((struct inst *)cont.instance)"

        def ctx_print(acc):
            if o["ctx"] == "CArc_c_void":
                return 'printf(" ctx=arc%%llu", (unsigned long long)((const struct arcin *)%scontext.instance)->id);' % acc
            if o["ctx"] == "NoContext":
                return 'printf(" ctx=none");'
            return 'printf(" ctx=tag%%llu", (unsigned long long)%scontext.tag);' % acc

        for v in o["vtbls"]:
            for f in v["funcs"]:
                fname, kind, args, ret = f
                is_clone = fname == "clone" and v["field"] == "vtbl_clone"
                recv = {"ref": "const %s *cont" % cn, "mut": "%s *cont" % cn, "own": "%s cont" % cn}[kind]
                params = ", ".join([recv] + ["%s%s%s" % (a[0], "" if a[0].endswith("*") else " ", a[1]) for a in args])
                w("static %s%smock_%d_%s_%s(%s) {" % (ret, "" if ret.endswith("*") else " ", k, v["field"], fname, params))
                if kind == "own":
                    w('    printf("SLOT %d.%s.%s inst=%%llu byvalue", (unsigned long long)%s->id);' % (k, v["field"], fname, inst_of_val))
                    w("    " + ctx_print("cont."))
                else:
                    w('    printf("SLOT %d.%s.%s inst=%%llu same=%%d", (unsigned long long)%s->id, (const void *)cont == EXPECT_CONT);' % (k, v["field"], fname, inst_of_ptr))
                    w("    " + ctx_print("cont->"))
                w('    printf(" args=[");')
                for a in args:
                    w("    " + c_print(a[0], a[1]) + ' printf(";");')
                w('    printf("]\\n");')
                if kind == "own":
                    # what the Rust side does with an owned container: release the instance and its context
                    if o["cont"] == "Box":
                        w("    if (cont.instance.drop_fn) cont.instance.drop_fn(cont.instance.instance);")
                    if o["ctx"] == "CArc_c_void":
                        w("    { struct arcin *a = (struct arcin *)cont.context.instance; cont.context.drop_fn(cont.context.instance);")
                        w('      printf("LIBRARY arc%llu %s\\n", (unsigned long long)a->id, a->count > 0 ? "still-loaded" : "UNLOADED-INSIDE-CALL"); }')
                if is_clone:
                    w("    { %s out = *cont;" % cn)
                    if o["cont"] == "Box":
                        w("      out.instance.instance = &INST[CLONE_INST];")
                    else:
                        w("      out.instance = &INST[CLONE_INST];")
                    if o["ctx"] == "CArc_c_void":
                        w("      out.context.instance = cont->context.clone_fn(cont->context.instance);")
                    w("      return out; }")
                elif ret != "void":
                    w("    return %s;" % rslot[ret])
                w("}")
            w("static const struct %s VT_%d_%s = { %s };" % (v["type"], k, v["field"], ", ".join("mock_%d_%s_%s" % (k, v["field"], f[0]) for f in v["funcs"])))
    w("int main(void) {")
    w("    int i; for (i = 0; i < 128; i++) BUF[i] = (uint8_t)i;")
    w("    for (i = 0; i < %d; i++) INST[i].id = (uint64_t)i;" % max(1, plan["insts"]))
    w("    for (i = 0; i < %d; i++) ARCS[i].id = (uint64_t)i;" % max(1, plan["arcs"]))
    w("    setvbuf(stdout, NULL, _IONBF, 0);")
    objtype = {}
    for st in plan["steps"]:
        if st["op"] == "create":
            k = st["type"]
            o = types[k]
            on = st["obj"]
            objtype[on] = k
            w("    struct %s o%d; memset(&o%d, 0, sizeof o%d);" % (o["struct"], on, on, on))
            for v in o["vtbls"]:
                w("    o%d.%s = &VT_%d_%s;" % (on, v["field"], k, v["field"]))
            if o["cont"] == "Box":
                w("    o%d.container.instance.instance = &INST[%d]; o%d.container.instance.drop_fn = inst_drop;" % (on, st["inst"], on))
            else:
                w("    o%d.container.instance = &INST[%d];" % (on, st["inst"]))
            if o["ctx"] == "CArc_c_void":
                w("    o%d.container.context.instance = &ARCS[%d]; o%d.container.context.clone_fn = arc_clone; o%d.container.context.drop_fn = arc_drop; ARCS[%d].count++;" % (on, st["ctx"], on, on, st["ctx"]))
                if o["cont"] == "Box":
                    w("    INST[%d].arc = %d;" % (st["inst"], st["ctx"] + 1))
            elif o["ctx"] != "NoContext":
                w("    o%d.container.context.tag = %dull; o%d.container.context.handle = BUF;" % (on, st["ctx"], on))
            w('    printf("CREATE o%d\\n"); state();' % on)
        elif st["op"] == "drop":
            k = objtype[st["obj"]]
            w('    printf("DROP o%d\\n");' % st["obj"])
            w("    %s(o%d);" % (table[k]["drop"], st["obj"]))
            w("    state();")
        else:
            k = objtype[st["obj"]]
            o = types[k]
            v = [x for x in o["vtbls"] if x["field"] == st["field"]][0]
            f = [x for x in v["funcs"] if x[0] == st["fname"]][0]
            name = table[k]["names"].get((st["field"], st["fname"]))
            w('    printf("CALL o%d %s.%s\\n");' % (st["obj"], st["field"], st["fname"]))
            if name is None:
                w('    printf("NOWRAPPER\\n");')
                continue
            argv = ", ".join(c_value(a[0], val) for a, val in zip(f[2], st["args"]))
            recv = ("o%d" % st["obj"]) if f[1] == "own" else ("&o%d" % st["obj"])
            call = "%s(%s)" % (name, ", ".join([recv] + ([argv] if argv else [])))
            is_clone = "new_obj" in st
            if is_clone:
                w("    CLONE_INST = %d;" % st["new_inst"])
                w("    EXPECT_CONT = &o%d.container;" % st["obj"])
                w("    struct %s o%d = %s;" % (o["struct"], st["new_obj"], call))
                objtype[st["new_obj"]] = k
                inst = "o%d.container.instance.instance" % st["new_obj"] if o["cont"] == "Box" else "o%d.container.instance" % st["new_obj"]
                w('    printf("RET container inst=%%llu\\n", (unsigned long long)((const struct inst *)%s)->id);' % inst)
                # in C mode the wrapper rebuilds the container only: the caller copies the vtables
                for vv in o["vtbls"]:
                    w("    o%d.%s = o%d.%s;" % (st["new_obj"], vv["field"], st["obj"], vv["field"]))
            else:
                if f[3] != "void":
                    w("    %s = %s;" % (rslot[f[3]], c_value(f[3], st["ret"])))
                if f[1] != "own":
                    w("    EXPECT_CONT = &o%d.container;" % st["obj"])
                if f[3] == "void":
                    w("    %s;" % call)
                    w('    printf("RET void\\n");')
                else:
                    w("    { %s%sr = %s; printf(\"RET \"); %s printf(\"\\n\"); }" % (f[3], "" if f[3].endswith("*") else " ", call, c_print(f[3], "r")))
            w("    state();")
    w("    return 0;\n}")
    return "\n".join(L) + "\n"


# ---------------------------------------------------------------------------------------------
# the reference model
# ---------------------------------------------------------------------------------------------

def expected_log(model, config, plan):
    types, table = wrapper_table(model, config)
    arcs = [0] * plan["arcs"]
    drops = [0] * plan["insts"]
    objs = {}
    out = []

    def state():
        out.append("STATE arcs=%s drops=%s" % ("".join("%d," % c for c in arcs), "".join("%d," % d for d in drops)))

    def ctx_text(o, ctx):
        if o["ctx"] == "CArc_c_void":
            return "ctx=arc%d" % ctx
        if o["ctx"] == "NoContext":
            return "ctx=none"
        return "ctx=tag%d" % ctx

    for st in plan["steps"]:
        if st["op"] == "create":
            o = types[st["type"]]
            objs[st["obj"]] = {"type": st["type"], "inst": st["inst"], "ctx": st["ctx"]}
            if o["ctx"] == "CArc_c_void":
                arcs[st["ctx"]] += 1
            out.append("CREATE o%d" % st["obj"])
            state()
        elif st["op"] == "drop":
            ob = objs.pop(st["obj"])
            o = types[ob["type"]]
            out.append("DROP o%d" % st["obj"])
            if o["cont"] == "Box":
                drops[ob["inst"]] += 1
            if o["ctx"] == "CArc_c_void":
                arcs[ob["ctx"]] -= 1
            state()
        else:
            ob = objs[st["obj"]]
            k = ob["type"]
            o = types[k]
            v = [x for x in o["vtbls"] if x["field"] == st["field"]][0]
            f = [x for x in v["funcs"] if x[0] == st["fname"]][0]
            out.append("CALL o%d %s.%s" % (st["obj"], st["field"], st["fname"]))
            if (st["field"], st["fname"]) not in table[k]["names"]:
                out.append("NOWRAPPER")  # reported by the existence oracle (entries_without_wrapper), not here
                continue
            args = "".join(text_value(a[0], val) + ";" for a, val in zip(f[2], st["args"]))
            if f[1] == "own":
                out.append("SLOT %d.%s.%s inst=%d byvalue %s args=[%s]" % (k, st["field"], st["fname"], ob["inst"], ctx_text(o, ob["ctx"]), args))
                if o["cont"] == "Box":
                    drops[ob["inst"]] += 1
                if o["ctx"] == "CArc_c_void":
                    arcs[ob["ctx"]] -= 1
                    out.append("LIBRARY arc%d still-loaded" % ob["ctx"])
                objs.pop(st["obj"])
            else:
                out.append("SLOT %d.%s.%s inst=%d same=1 %s args=[%s]" % (k, st["field"], st["fname"], ob["inst"], ctx_text(o, ob["ctx"]), args))
            if "new_obj" in st:
                objs[st["new_obj"]] = {"type": k, "inst": st["new_inst"], "ctx": ob["ctx"]}
                if o["ctx"] == "CArc_c_void":
                    arcs[ob["ctx"]] += 1
                out.append("RET container inst=%d" % st["new_inst"])
            elif f[3] == "void":
                out.append("RET void")
            else:
                out.append("RET " + text_value(f[3], st["ret"]))
            state()
    return out


def classify(exp, got):
    """First difference between the expected and the observed log."""
    n = min(len(exp), len(got))
    for i, g in enumerate(got):
        if g.startswith("INSTANCE "):
            ctx = [l for l in got[:i] if l.startswith("CALL") or l.startswith("DROP")]
            return {"class": "wrap.context_released_before_instance", "site": (ctx[-1] if ctx else "start"), "msg": "line %d: `%s` (the context that keeps the instance's code loaded was given back before the instance's destructor ran)" % (i, g)}
    for i in range(n):
        if exp[i] != got[i]:
            e, g = exp[i], got[i]
            if e.startswith("LIBRARY") or g.startswith("LIBRARY"):
                cls = "wrap.context_not_kept_alive"
            elif e.startswith("STATE") and g.startswith("STATE"):
                cls = "wrap.release_count"
            elif e.startswith("RET"):
                cls = "wrap.result"
            elif e.startswith("SLOT") and g.startswith("SLOT"):
                es, gs = e.split(" "), g.split(" ")
                if es[1] != gs[1]:
                    cls = "wrap.wrong_slot"
                elif es[2:5] != gs[2:5]:
                    cls = "wrap.wrong_container"
                else:
                    cls = "wrap.arguments"
            elif g == "NOWRAPPER":
                cls = "wrap.no_wrapper"
            else:
                cls = "wrap.sequence"
            ctx = [l for l in exp[:i] if l.startswith("CALL") or l.startswith("DROP")]
            return {"class": cls, "site": (ctx[-1] if ctx else "start"), "msg": "line %d: expected `%s`, observed `%s`" % (i, e, g)}
    if len(exp) != len(got):
        return {"class": "wrap.sequence", "site": "end", "msg": "expected %d log lines, observed %d (next expected: `%s`, next observed: `%s`)" % (len(exp), len(got), exp[n] if n < len(exp) else "", got[n] if n < len(got) else "")}
    return None


def entries_without_wrapper(model, config, header_text):
    """For the entries that have no documented name of their own (two traits of one group with a
    method of the same name): does any wrapper of the processed header invoke them at all?
    (`...{vtbl field})->{entry}(` inside a function that mentions the group type.) Entries that do
    have a documented name are checked by using that name (names_program, run_driver)."""
    missing = []
    seen = set()
    chunks = header_text.split("\nstatic inline ")[1:]
    types, table = wrapper_table(model, config)
    for o, t in zip(types, table):
        mark = ("struct %s_" % o["name"]) if o["kind"] == "group" else ("%sVtbl_CGlueObjContainer" % o["name"])
        for (field, fname, _first) in t["unnamed"]:
            key = (o["kind"], o["name"], field, fname)
            if key in seen:
                continue
            seen.add(key)
            needle = "%s)->%s(" % (field, fname)
            if not any(needle in c and mark in c for c in chunks):
                missing.append({"kind": o["kind"], "name": o["name"], "field": field, "entry": fname})
    return missing


def names_program(model, config, header_path):
    """A translation unit that takes the address of every wrapper and drop helper the documented
    naming rules promise, so that a missing one is a compile error whether or not a plan calls it."""
    types, table = wrapper_table(model, config)
    names = []
    for t in table:
        for n in list(t["names"].values()) + [t["drop"]]:
            if n not in names:
                names.append(n)
    body = "\n".join("    p[%d] = (void (*)(void))%s;" % (i, n) for i, n in enumerate(names))
    return '#include <string.h>\n#include "%s"\nint main(void) {\n    void (*p[%d])(void);\n%s\n    return p[0] == 0;\n}\n' % (header_path, max(1, len(names)), body), names


def check_names(workdir, model, config, header_path):
    src = os.path.join(workdir, "names.c")
    text, names = names_program(model, config, header_path)
    with open(src, "w") as f:
        f.write(text)
    cc = subprocess.run(["cc", "-std=c99", "-fsyntax-only", "-w", src], stdout=subprocess.PIPE, stderr=subprocess.STDOUT, text=True)
    if cc.returncode != 0:
        errs = [l for l in cc.stdout.splitlines() if "error" in l]
        und = [l for l in errs if "undeclared" in l]
        if und:
            missing = sorted({n for n in names for l in und if ("‘%s’" % n) in l or ("'%s'" % n) in l})
            return {"class": "wrap.no_wrapper", "site": "documented name", "msg": "the processed header offers no wrapper of the documented name(s) %s" % ", ".join(missing[:4])}
        return {"class": "wrap.compile", "site": "cc", "msg": "taking the address of the documented wrappers does not compile: " + " | ".join(e[-200:] for e in errs[:3])}
    return None


CFLAGS = ["-std=c99", "-O0", "-w", "-Werror=implicit-function-declaration", "-Werror=incompatible-pointer-types", "-Werror=int-conversion"]


SANITIZE = ["-g", "-fsanitize=address,undefined", "-fno-sanitize-recover=all"]


def run_driver(workdir, model, config, plan, header_path, tag="", sanitize=False):
    src = os.path.join(workdir, "driver%s.c" % tag)
    exe = os.path.join(workdir, "driver%s" % tag)
    with open(src, "w") as f:
        f.write(gen_driver(model, config, plan, header_path))
    cc = subprocess.run(["cc"] + CFLAGS + (SANITIZE if sanitize else []) + ["-o", exe, src], stdout=subprocess.PIPE, stderr=subprocess.STDOUT, text=True)
    if cc.returncode != 0:
        errs = [l for l in cc.stdout.splitlines() if "error" in l]
        missing = [l for l in errs if "implicit declaration" in l]
        if missing:
            return {"violation": {"class": "wrap.no_wrapper", "site": missing[0].split("function")[-1].strip(" ‘’'`;[]-Werror=implicit-function-declaration"), "msg": "the processed header offers no wrapper of the documented name: " + missing[0][-200:]}}
        return {"violation": {"class": "wrap.compile", "site": "cc", "msg": "a program using the wrappers as documented does not compile: " + " | ".join(e[-200:] for e in errs[:3])}}
    try:
        p = subprocess.run([exe], stdout=subprocess.PIPE, stderr=subprocess.PIPE, text=True, timeout=60, errors="replace",
                           env=dict(os.environ, ASAN_OPTIONS="detect_leaks=0:abort_on_error=0", UBSAN_OPTIONS="print_stacktrace=0"))
    except subprocess.TimeoutExpired:
        return {"violation": {"class": "wrap.hang", "site": "driver", "msg": "the C program did not finish"}}
    got = p.stdout.splitlines()
    exp = expected_log(model, config, plan)
    v = classify(exp, got)
    if v is None and p.returncode != 0:
        san = [l for l in p.stderr.splitlines() if "ERROR: AddressSanitizer" in l or "runtime error" in l]
        v = {"class": "wrap.crash", "site": "driver", "msg": "the C program died with status %d%s" % (p.returncode, (": " + san[0][:200]) if san else "")}
    elif v is not None and p.returncode < 0:
        v["msg"] += " (the program then died with signal %d)" % -p.returncode
    return {"violation": v, "log_lines": len(got), "slots": sum(1 for l in got if l.startswith("SLOT")), "log": p.stdout}


# ---------------------------------------------------------------------------------------------
# C++ mode: member-function wrappers of the specialised CGlueTraitObj / group templates
# ---------------------------------------------------------------------------------------------

def wrapper_table_cpp(model):
    types = hdrgen.object_types_cpp(model)
    out = []
    for o in types:
        names = {}
        for v in o["vtbls"]:
            for f in v["funcs"]:
                clash = o["kind"] == "group" and any(f[0] == f2[0] for v2 in o["vtbls"] if v2 is not v for f2 in v2["funcs"])
                names[(v["field"], f[0])] = (v["trait"].lower() + "_" + f[0]) if clash else f[0]
        out.append({"names": names, "drop": None, "unnamed": []})
    return types, out


def cpp_value(ty, v, model):
    ct = hdrgen.cpp_type(ty, model)
    if ty == "bool":
        return "(bool)%d" % v
    if ty == "int32_t":
        return "(int32_t)(%d)" % v
    if ty in ("uint8_t", "uint64_t", "uintptr_t"):
        return "(%s)%dull" % (ty, v)
    if ty == "struct ArgPair":
        return "ArgPair{ %duL, %dull }" % (v[0], v[1])
    if ty == "struct CSliceRef_u8":
        return "mk_slice(BUF + %d, %d)" % (v[0], v[1])
    if ty == "const uint8_t *":
        return "(const uint8_t *)(BUF + %d)" % v
    if ty == "void *":
        return "(void *)(BUF + %d)" % v
    if ty == hdrgen.OUT_SLOT:
        return "(CTup2<CSliceRef<uint8_t>, uintptr_t> *)(void *)(BUF + %d)" % v
    if ty.startswith("struct Callback_c_void__"):
        return "mk_cb((void *)(BUF + %d), %s)" % (v[0], "cb_one" if v[1] else "cb_zero")
    raise ValueError(ty)


def gen_driver_cpp(model, plan, header_path):
    m = hdrgen.cpp_model(model)
    types, table = wrapper_table_cpp(model)
    cb = m.get("callback_payload", "ArgPair")
    cbty = "ArgPair" if cb == "ArgPair" else "uint64_t"
    L = []
    w = L.append
    w('#include <cstdio>\n#include <cstring>\n#include <utility>\n#include "%s"\n' % header_path)
    w("static uint8_t BUF[128];")
    w("struct arcin { long count; uint64_t id; };")
    w("static arcin ARCS[%d];" % max(1, plan["arcs"]))
    w("struct inst { uint64_t id; int drops; int arc; };")
    w("static inst INST[%d];" % max(1, plan["insts"]))
    w('static void inst_drop(void *p) { inst *i = (inst *)p; i->drops++; if (i->arc > 0 && ARCS[i->arc - 1].count <= 0) printf("INSTANCE inst=%llu destroyed after the LIBRARY was released\\n", (unsigned long long)i->id); }')
    w("static const void *arc_clone(const void *p) { ((arcin *)p)->count++; return p; }")
    w("static void arc_drop(const void *p) { ((arcin *)p)->count--; }")
    w("static bool cb_zero(void *c, %s v) { (void)c; (void)v; return 0; }" % cbty)
    w("static bool cb_one(void *c, %s v) { (void)c; (void)v; return 1; }" % cbty)
    if any(a[0] == "struct CSliceRef_u8" for o in types for v in o["vtbls"] for f in v["funcs"] for a in f[2]):
        w("static CSliceRef<uint8_t> mk_slice(const uint8_t *d, uintptr_t n) { CSliceRef<uint8_t> s; s.data = d; s.len = n; return s; }")
    w("static OpaqueCallback<%s> mk_cb(void *c, bool (*f)(void *, %s)) { OpaqueCallback<%s> r; r.context = c; r.func = f; return r; }" % (cbty, cbty, cbty))
    w("static const void *EXPECT_CONT;")
    w("static void state(void) {\n    int i; printf(\"STATE arcs=\");\n    for (i = 0; i < %d; i++) printf(\"%%ld,\", ARCS[i].count);\n    printf(\" drops=\");\n    for (i = 0; i < %d; i++) printf(\"%%d,\", INST[i].drops);\n    printf(\"\\n\");\n}" % (plan["arcs"], plan["insts"]))
    ret_types = sorted({f[3] for o in types for v in o["vtbls"] for f in v["funcs"] if f[3] != "void" and not (f[0] == "clone" and v["field"] == "vtbl_clone")})
    rslot = {}
    for i, rt in enumerate(ret_types):
        ct = hdrgen.cpp_type(rt, m)
        w("static %s%sRETV_%d;" % (ct, "" if ct.endswith("*") else " ", i))
        rslot[rt] = "RETV_%d" % i
    w("static uint64_t CLONE_INST;")

    def pr(ty, expr):
        return c_print(ty, expr).replace("(const uint8_t *)(%s).context" % expr, "(const uint8_t *)(%s).context" % expr)

    for k, o in enumerate(types):
        w("typedef %s Cont%d;" % (o["container"], k))
        w("typedef %s Obj%d;" % (o["struct"], k))
        inst_of_ptr = "((const inst *)cont->instance.instance)" if o["cont"] == "Box" else "((const inst *)cont->instance)"
        inst_of_val = "((inst *)cont.instance.instance)" if o["cont"] == "Box" else "((inst *)cont.instance)"
        for v in o["vtbls"]:
            for f in v["funcs"]:
                fname, kind, args, ret = f
                is_clone = fname == "clone" and v["field"] == "vtbl_clone"
                recv = {"ref": "const Cont%d *cont" % k, "mut": "Cont%d *cont" % k, "own": "Cont%d cont" % k}[kind]
                ps = [recv]
                for a in args:
                    ct = hdrgen.cpp_type_processed(a[0], m)
                    ps.append("%s%s%s" % (ct, "" if ct.endswith("*") else " ", a[1]))
                rt = ("Cont%d" % k) if is_clone else hdrgen.cpp_type(ret, m)
                w("static %s%smock_%d_%s_%s(%s) {" % (rt, "" if rt.endswith("*") else " ", k, v["field"], fname, ", ".join(ps)))
                arc = o["ctx"] == "CArc_c_void"
                if kind == "own":
                    w('    printf("SLOT %d.%s.%s inst=%%llu byvalue", (unsigned long long)%s->id);' % (k, v["field"], fname, inst_of_val))
                    w('    printf(" ctx=arc%llu", (unsigned long long)((const arcin *)cont.context.instance)->id);' if arc else '    printf(" ctx=none");')
                else:
                    w('    printf("SLOT %d.%s.%s inst=%%llu same=%%d", (unsigned long long)%s->id, (const void *)cont == EXPECT_CONT);' % (k, v["field"], fname, inst_of_ptr))
                    w('    printf(" ctx=arc%llu", (unsigned long long)((const arcin *)cont->context.instance)->id);' if arc else '    printf(" ctx=none");')
                w('    printf(" args=[");')
                for a in args:
                    w("    " + pr(a[0], a[1]) + ' printf(";");')
                w('    printf("]\\n");')
                if kind == "own":
                    if o["cont"] == "Box":
                        w("    if (cont.instance.drop_fn) cont.instance.drop_fn(cont.instance.instance);")
                    if arc:
                        w("    { arcin *a = (arcin *)cont.context.instance; cont.context.drop_fn(cont.context.instance);")
                        w('      printf("LIBRARY arc%llu %s\\n", (unsigned long long)a->id, a->count > 0 ? "still-loaded" : "UNLOADED-INSIDE-CALL"); }')
                if is_clone:
                    w("    { Cont%d out = *cont;" % k)
                    if o["cont"] == "Box":
                        w("      out.instance.instance = &INST[CLONE_INST];")
                    else:
                        w("      out.instance = &INST[CLONE_INST];")
                    if arc:
                        w("      out.context.instance = cont->context.clone_fn(cont->context.instance);")
                    w("      return out; }")
                elif ret != "void":
                    w("    return %s;" % rslot[ret])
                w("}")
            w("static const %s VT_%d_%s = { %s };" % (v["type"], k, v["field"], ", ".join("mock_%d_%s_%s" % (k, v["field"], f[0]) for f in v["funcs"])))
    w("int main(void) {")
    w("    int i; for (i = 0; i < 128; i++) BUF[i] = (uint8_t)i;")
    w("    for (i = 0; i < %d; i++) INST[i].id = (uint64_t)i;" % max(1, plan["insts"]))
    w("    for (i = 0; i < %d; i++) ARCS[i].id = (uint64_t)i;" % max(1, plan["arcs"]))
    w("    setvbuf(stdout, NULL, _IONBF, 0);")
    objtype = {}
    for st in plan["steps"]:
        if st["op"] == "create":
            k = st["type"]
            o = types[k]
            on = st["obj"]
            objtype[on] = k
            w("    Obj%d *o%d = new Obj%d();" % (k, on, k))
            for v in o["vtbls"]:
                w("    o%d->%s = &VT_%d_%s;" % (on, v["field"], k, v["field"]))
            if o["cont"] == "Box":
                w("    o%d->container.instance.instance = &INST[%d]; o%d->container.instance.drop_fn = inst_drop;" % (on, st["inst"], on))
            else:
                w("    o%d->container.instance = &INST[%d];" % (on, st["inst"]))
            if o["ctx"] == "CArc_c_void":
                w("    o%d->container.context.instance = &ARCS[%d]; o%d->container.context.clone_fn = arc_clone; o%d->container.context.drop_fn = arc_drop; ARCS[%d].count++;" % (on, st["ctx"], on, on, st["ctx"]))
                if o["cont"] == "Box":
                    w("    INST[%d].arc = %d;" % (st["inst"], st["ctx"] + 1))
            w('    printf("CREATE o%d\\n"); state();' % on)
        elif st["op"] == "drop":
            w('    printf("DROP o%d\\n");' % st["obj"])
            w("    delete o%d;" % st["obj"])
            w("    state();")
        else:
            k = objtype[st["obj"]]
            o = types[k]
            v = [x for x in o["vtbls"] if x["field"] == st["field"]][0]
            f = [x for x in v["funcs"] if x[0] == st["fname"]][0]
            name = table[k]["names"][(st["field"], st["fname"])]
            w('    printf("CALL o%d %s.%s\\n");' % (st["obj"], st["field"], st["fname"]))
            argv = ", ".join(cpp_value(a[0], val, m) for a, val in zip(f[2], st["args"]))
            target = ("std::move(*o%d)." % st["obj"]) if f[1] == "own" else ("o%d->" % st["obj"])
            call = "%s%s(%s)" % (target, name, argv)
            if "new_obj" in st:
                w("    CLONE_INST = %d;" % st["new_inst"])
                w("    EXPECT_CONT = &o%d->container;" % st["obj"])
                w("    Obj%d *o%d = new Obj%d(%s);" % (k, st["new_obj"], k, call))
                objtype[st["new_obj"]] = k
                inst = "o%d->container.instance.instance" % st["new_obj"] if o["cont"] == "Box" else "o%d->container.instance" % st["new_obj"]
                w('    printf("RET container inst=%%llu vtables=%%d\\n", (unsigned long long)((const inst *)%s)->id, %s);' % (inst, " && ".join("o%d->%s == o%d->%s" % (st["new_obj"], vv["field"], st["obj"], vv["field"]) for vv in o["vtbls"])))
            else:
                if f[3] != "void":
                    w("    %s = %s;" % (rslot[f[3]], cpp_value(f[3], st["ret"], m)))
                if f[1] != "own":
                    w("    EXPECT_CONT = &o%d->container;" % st["obj"])
                if f[3] == "void":
                    w("    %s;" % call)
                    w('    printf("RET void\\n");')
                else:
                    ct = hdrgen.cpp_type(f[3], m)
                    w("    { %s%sr = %s; printf(\"RET \"); %s printf(\"\\n\"); }" % (ct, "" if ct.endswith("*") else " ", call, pr(f[3], "r")))
                if f[1] == "own":
                    w("    delete o%d;" % st["obj"])
            w("    state();")
    w("    return 0;\n}")
    return "\n".join(L) + "\n"


def expected_log_cpp(model, plan, known_ctx_leak=False):
    """Reference model for the C++ program. With known_ctx_leak every consuming call on a
    reference-counted context leaves one reference behind (the recorded finding)."""
    types, table = wrapper_table_cpp(model)
    m = hdrgen.cpp_model(model)
    arcs = [0] * plan["arcs"]
    drops = [0] * plan["insts"]
    objs = {}
    out = []

    def state():
        out.append("STATE arcs=%s drops=%s" % ("".join("%d," % c for c in arcs), "".join("%d," % d for d in drops)))

    for st in plan["steps"]:
        if st["op"] == "create":
            objs[st["obj"]] = {"type": st["type"], "inst": st["inst"], "ctx": st["ctx"]}
            if st["ctx"] is not None:
                arcs[st["ctx"]] += 1
            out.append("CREATE o%d" % st["obj"])
            state()
        elif st["op"] == "drop":
            ob = objs.pop(st["obj"])
            o = types[ob["type"]]
            out.append("DROP o%d" % st["obj"])
            if o["cont"] == "Box":
                drops[ob["inst"]] += 1
            if ob["ctx"] is not None:
                arcs[ob["ctx"]] -= 1
            state()
        else:
            ob = objs[st["obj"]]
            k = ob["type"]
            o = types[k]
            v = [x for x in o["vtbls"] if x["field"] == st["field"]][0]
            f = [x for x in v["funcs"] if x[0] == st["fname"]][0]
            out.append("CALL o%d %s.%s" % (st["obj"], st["field"], st["fname"]))
            args = "".join(text_value(a[0], val) + ";" for a, val in zip(f[2], st["args"]))
            if f[1] == "own":
                ctxt = ("ctx=arc%d" % ob["ctx"]) if ob["ctx"] is not None else "ctx=none"
                out.append("SLOT %d.%s.%s inst=%d byvalue %s args=[%s]" % (k, st["field"], st["fname"], ob["inst"], ctxt, args))
                if o["cont"] == "Box":
                    drops[ob["inst"]] += 1
                if ob["ctx"] is not None:
                    arcs[ob["ctx"]] -= 1
                    if known_ctx_leak:
                        arcs[ob["ctx"]] += 1
                    out.append("LIBRARY arc%d still-loaded" % ob["ctx"])
                objs.pop(st["obj"])
            else:
                ctxt = ("ctx=arc%d" % ob["ctx"]) if ob["ctx"] is not None else "ctx=none"
                out.append("SLOT %d.%s.%s inst=%d same=1 %s args=[%s]" % (k, st["field"], st["fname"], ob["inst"], ctxt, args))
            if "new_obj" in st:
                objs[st["new_obj"]] = {"type": k, "inst": st["new_inst"], "ctx": ob["ctx"]}
                if ob["ctx"] is not None:
                    arcs[ob["ctx"]] += 1
                out.append("RET container inst=%d vtables=1" % st["new_inst"])
            elif f[3] == "void":
                out.append("RET void")
            else:
                out.append("RET " + text_value(f[3], st["ret"]))
            state()
    return out


CXXFLAGS = ["-std=c++11", "-O0", "-w"]


def run_driver_cpp(workdir, model, plan, header_path, tag="", sanitize=False):
    src = os.path.join(workdir, "driver%s.cpp" % tag)
    exe = os.path.join(workdir, "driverpp%s" % tag)
    with open(src, "w") as f:
        f.write(gen_driver_cpp(model, plan, header_path))
    cc = subprocess.run(["c++"] + CXXFLAGS + (SANITIZE if sanitize else []) + ["-o", exe, src], stdout=subprocess.PIPE, stderr=subprocess.STDOUT, text=True)
    if cc.returncode != 0:
        errs = [l for l in cc.stdout.splitlines() if "error" in l]
        missing = [l for l in errs if "has no member named" in l]
        if missing:
            return {"violation": {"class": "wrap.no_wrapper", "site": "documented name", "msg": "no member function of the documented name: " + missing[0][-220:]}}
        return {"violation": {"class": "wrap.compile", "site": "c++", "msg": "a C++11 program using the member-function wrappers does not compile: " + " | ".join(e[-220:] for e in errs[:3])}}
    try:
        p = subprocess.run([exe], stdout=subprocess.PIPE, stderr=subprocess.PIPE, text=True, timeout=60, errors="replace",
                           env=dict(os.environ, ASAN_OPTIONS="detect_leaks=0", UBSAN_OPTIONS="print_stacktrace=0"))
    except subprocess.TimeoutExpired:
        return {"violation": {"class": "wrap.hang", "site": "driver", "msg": "the C++ program did not finish"}}
    got = p.stdout.splitlines()
    exp = expected_log_cpp(model, plan)
    v = classify(exp, got)
    finding = None
    if v is not None:
        leak = expected_log_cpp(model, plan, known_ctx_leak=True)
        v2 = classify(leak, got)
        if v2 is None:
            finding = {"class": "wrap.release_count", "site": "C++ consuming wrapper keeps its context clone", "msg": v["msg"]}
            v = None
        else:
            v = v2
    if v is None and p.returncode != 0:
        san = [l for l in p.stderr.splitlines() if "ERROR: AddressSanitizer" in l or "runtime error" in l]
        v = {"class": "wrap.crash", "site": "driver", "msg": "the C++ program died with status %d%s" % (p.returncode, (": " + san[0][:200]) if san else "")}
    return {"violation": v, "finding": finding, "log_lines": len(got), "slots": sum(1 for l in got if l.startswith("SLOT")), "log": p.stdout}
