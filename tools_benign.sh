#!/bin/sh
# usage: tools_benign.sh <dir with patch.diff> <prop[,prop...]> — a behaviour-preserving change must leave every check quiet
d=$1; props=$2
git -C /repo apply --check $d/patch.diff || { echo "PATCH DOES NOT APPLY"; exit 3; }
trap 'git -C /repo checkout -- . ' EXIT INT TERM
git -C /repo apply $d/patch.diff
git -C /repo diff --stat | tail -1
for p in $(echo $props | tr , ' '); do
  timeout 1500 /verif/check $p --tier quick > /tmp/benign-out.txt 2>&1; rc=$?
  echo "== $p exit=$rc"; grep -E "^VIOLATION|^HARNESS|^#   class|^#   [a-z]" /tmp/benign-out.txt | cut -c1-300 | head -6
done
