#!/usr/bin/env python3
"""usage: tools_prompt.py <property id> <worktree tag> <note file or '-'>   — writes /tmp/prompt-<tag>.txt
(the text handed to a fresh sub-agent: property text + its own scratch worktree, nothing from /verif)
and creates the scratch worktree /tmp/mut-<tag> at /repo's HEAD."""
import json, subprocess, sys
pid, tag, notef = sys.argv[1:4]
prop = [json.loads(l) for l in open('/verif/properties.jsonl') if json.loads(l)['id'] == pid][0]
note = open(notef).read().strip() if notef != '-' else ''
W = '/tmp/mut-' + tag
t = f"""You are helping evaluate a verification framework for the Rust project h33p/cglue (a proc-macro code generator producing FFI/ABI-safe vtables and trait objects/groups, plus C-compatible wrapper types). You have your own scratch git worktree of the repository at {W} (work ONLY there; do not touch /repo or /verif, and do not read anything under /verif). The sandbox is offline: use `cargo ... --offline`; every cargo command must be run inside {W} (it has its own target directory).

Here is a semantic property of cglue that should hold:

  Title: {prop['title']}
  Statement: {prop['statement']}
  Quantified over: {prop['quantifier']['text']}

{('Note for this property: ' + note) if note else ''}

Your task: produce TWO different, realistic changes ("seeded defects") to the cglue sources in {W} (crates cglue, cglue-gen, cglue-macro, cglue-bindgen — pick what the property is about), each of which BREAKS this property while (a) the workspace still compiles, and (b) the existing test suite still passes: `cd {W} && cargo test --workspace --no-fail-fast --offline` (also fine to additionally run `cargo test -p cglue --features task,futures --offline -- --skip use_sink` if the change touches cglue/src/task). Prefer changes that need something specific to manifest — a particular sequence of operations, an unusual-but-legal input, a particular interleaving/order of drops or threads, a failure/cancellation at a particular point, or two cooperating sites that each look fine alone — NOT ones that any ordinary single use would expose at once. The two changes should be in different places / of different nature. Keep each change small (a few lines), like a plausible maintainer mistake or refactoring slip.

For each change deliver, under {W}/deliver/<n>/ (n = 1, 2):
  - patch.diff : `git diff` of ONLY that change against the worktree's HEAD (so it applies with `git apply` to a clean checkout of the same commit);
  - demo.rs : a demonstration that FAILS (assertion failure, wrong count, crash, or Miri/sanitizer error — say which) with the change and PASSES without it. Preferred form: ONE file `demo.rs` that works when copied to {W}/cglue/tests/seeded_demo.rs and run with `cargo test -p cglue --test seeded_demo --offline` (an integration test using the public API of cglue), or, if it has `fn main`, when copied to {W}/cglue/examples/seeded_demo.rs and run with `cargo run -p cglue --example seeded_demo --offline`. If that form is impossible (e.g. a second compiled module or a C program is needed), put a directory `demo/` with a `run.sh` that exits 0 on pass and non-zero on failure, and say so;
  - notes.md : what the change is, why the existing tests still pass, what exactly it needs in order to manifest (the specific sequence/input/order), and the exact commands you ran with their observed outcomes (with and without the change).
Verify all of it yourself: existing tests pass with the change; the demo fails with the change and passes without. Leave the worktree's tracked files in their ORIGINAL state at the end (revert your edits with `git checkout -- .` and remove any demo file you copied into the tree; the deliver/ directory is untracked and stays). Finally reply with a short summary of the two changes and the paths of the deliverables.
"""
open(f'/tmp/prompt-{tag}.txt', 'w').write(t)
subprocess.run(['git', '-C', '/repo', 'worktree', 'add', '-q', '--detach', W, 'HEAD'], check=True)
print('/tmp/prompt-%s.txt' % tag, W)
