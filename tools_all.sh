#!/bin/sh
# runs every registered quick check on the current tree; prints exit codes (all must be 0 on the unchanged tree)
for p in $(python3 -c "import json;print(' '.join(c['property_id'] for c in json.load(open('/verif/MANIFEST.json'))['checks']))"); do
  /verif/check $p --tier quick > /tmp/all-$p.txt 2>&1; echo -n "$p:$? "
done; echo; /verif/validate.sh
