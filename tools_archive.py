#!/usr/bin/env python3
"""usage: tools_archive.py <tag> <n> <property> <needs_to_manifest> <caught_by> <strengthening>
copies /tmp/mut-<tag>/deliver/<n> to /verif/seeded/<tag>-<n>/ and writes meta.json"""
import json, os, shutil, sys
t, n, prop, need, by, stren = sys.argv[1:7]
ORIG = "independent sub-agent given only the property text and a scratch worktree (later round: earlier known changes were named as excluded)"
src = "/tmp/mut-%s/deliver/%s" % (t, n); dst = "/verif/seeded/%s-%s" % (t, n)
os.makedirs(dst, exist_ok=True)
for f in ("patch.diff", "notes.md", "demo.rs"):
    if os.path.exists(os.path.join(src, f)):
        shutil.copy(os.path.join(src, f), dst)
if os.path.isdir(os.path.join(src, "demo")):
    if os.path.exists(os.path.join(dst, "demo")):
        shutil.rmtree(os.path.join(dst, "demo"))
    shutil.copytree(os.path.join(src, "demo"), os.path.join(dst, "demo"), ignore=shutil.ignore_patterns("target", "*.so", "*.o", "*.profraw"))
with open(os.path.join(dst, "meta.json"), "w") as f:
    json.dump({"id": "%s-%s" % (t, n), "property": prop, "origin": ORIG, "needs_to_manifest": need,
               "confirmed_in_scratch_worktree": {"existing_suite_with_change": "pass (exit 0)", "demonstration_with_change": "fails", "demonstration_without_change": "passes (exit 0)", "command": "/verif/tools_confirm.sh <worktree> <n>"},
               "checks_run": "/verif/tools_seeded.sh", "caught_by": by, "strengthening": stren}, f, indent=1)
    f.write("\n")
print(dst)
