#!/bin/sh
# usage: tools_confirm.sh <worktree> <n>   — confirms a delivered seeded change in its scratch worktree:
# existing suite passes with it; the demonstration fails with it and passes without it.
wt=$1; n=$2; d=$wt/deliver/$n
cd $wt || exit 3
git checkout -q -- . ; rm -f cglue/tests/seeded_demo.rs
FEAT=""; grep -q "cglue::task\|feature = \"task\"" $d/demo.rs 2>/dev/null && FEAT="--features task,futures"
run_demo() {
  if [ -f $d/demo/run.sh ]; then (cd $d/demo && sh run.sh >/dev/null 2>$wt/demo.err)
  elif [ -f $d/demo/Cargo.toml ]; then
    if [ -f $d/demo/src/main.rs ]; then (cd $d/demo && CARGO_TARGET_DIR=$wt/target/demo cargo run --offline -q >/dev/null 2>$wt/demo.err); else (cd $d/demo && CARGO_TARGET_DIR=$wt/target/demo cargo test --offline -q >/dev/null 2>$wt/demo.err); fi
  elif grep -q "^fn main" $d/demo.rs; then
    mkdir -p cglue/examples && cp $d/demo.rs cglue/examples/seeded_demo.rs && cargo run -p cglue $FEAT --example seeded_demo --offline -q >/dev/null 2>$wt/demo.err; r=$?; rm -f cglue/examples/seeded_demo.rs; rmdir cglue/examples 2>/dev/null; return $r
  else
    mkdir -p cglue/tests && cp $d/demo.rs cglue/tests/seeded_demo.rs && cargo test -p cglue $FEAT --test seeded_demo --offline -q >/dev/null 2>$wt/demo.err; r=$?; rm -f cglue/tests/seeded_demo.rs; return $r
  fi
}
git apply $d/patch.diff || { echo "$wt/$n: PATCH DOES NOT APPLY"; exit 3; }
cargo test --workspace --no-fail-fast --offline -q >/dev/null 2>$wt/suite.err; suite=$?
run_demo; with=$?
git checkout -q -- .
run_demo; without=$?
rm -f cglue/tests/seeded_demo.rs
echo "$wt/$n: suite_with_change_exit=$suite demo_with_change_exit=$with demo_without_change_exit=$without"
