#!/bin/sh
# validates MANIFEST.json and every evidence file against the schemas (tooling venv has jsonschema)
python3-vt - <<'PY'
import json,glob,jsonschema,sys
ok=True
try:
    jsonschema.validate(json.load(open('/verif/MANIFEST.json')),json.load(open('/root/.vp/MANIFEST.schema.json')))
except Exception as e:
    print("MANIFEST invalid:",e); ok=False
es=json.load(open('/root/.vp/EVIDENCE.schema.json'))
for f in sorted(glob.glob('/verif/evidence/C*.json')):
    try: jsonschema.validate(json.load(open(f)),es)
    except Exception as e: print(f,"invalid:",str(e)[:300]); ok=False
print("valid" if ok else "INVALID")
PY
